"""C14 rules: R-PS-PAIR, R-PS-COUNT, R-PS-REPLYCOUNT, R-PS-DEDUP, R-PS-CLOSE."""
import re
from facts import callee, op_local, op_place, op_is_const
import cfg, shared, prov, boolpath
from shared import SERVER

PS = "pubsub::PubSubManager::"
SI = "pubsub::SubscriberInfo."
PM = "pubsub::PubSubManager."


def field_calls(b, fields, rx):
    """calls matching rx whose receiver derives from any of the given struct fields"""
    out = []
    for i, t in b.calls():
        if re.search(rx, t["f"] or "") and t["a"] and not op_is_const(t["a"][0]):
            P = prov.operand_origins(b, t["a"][0])
            if any(f in fields for f in P.fields):
                out.append(i)
    return out


def up_origins(ctx, body, op, depth=0):
    """(fields, parameters of the outermost function) on the provenance of an operand, following
    closure captures up into the enclosing functions"""
    fields = set(); params = set()
    if op_is_const(op):
        return fields, params
    P = prov.operand_origins(body, op, deep=True)
    fields |= set(P.fields)
    if body.kind != "Closure":
        params |= set(P.params())
    if depth < 4:
        for r in P.roots:
            if r[0] == "upvar":
                cap = shared.capture_operand(ctx, body, r)
                if cap:
                    f2, p2 = up_origins(ctx, cap[0], cap[1], depth + 1)
                    fields |= f2; params |= p2
    return fields, params


def up_field_calls(ctx, bodies, fields, rx):
    """(body, block) of calls matching rx whose receiver derives -- possibly through closure
    captures -- from one of the given struct fields"""
    out = []
    for body in bodies:
        for i, t in body.calls():
            if re.search(rx, t["f"] or "") and t["a"] and not op_is_const(t["a"][0]):
                if up_origins(ctx, body, t["a"][0])[0] & set(fields):
                    out.append((body, i))
    return out


def rule_pair(ctx, R):
    spec = [("subscribe", "channels", "add"), ("unsubscribe", "channels", "del"), ("psubscribe", "patterns", "add"), ("punsubscribe", "patterns", "del")]
    GM = r"HashMap::<std::vec::Vec<u8>, std::collections::HashSet<u64>>::"
    for fn_, kind, mode in spec:
        b0 = ctx.prog.need(PS + fn_)
        verb = "insert" if mode == "add" else "remove"
        # the update may sit in a closure the function drives (`names.into_iter().map(|n| ..)`):
        # the whole closure tree is searched and captures are followed up to the function
        tree = shared.closure_tree(ctx, b0)
        per_all = up_field_calls(ctx, tree, {SI + kind}, r"HashSet::<std::vec::Vec<u8>>::%s(::<.*>)?$" % verb)
        glob_get = up_field_calls(ctx, tree, {PM + kind}, GM + r"(entry|get_mut|insert)(::<.*>)?$")
        R.inst(b0.fn, "pair:" + kind, {"per_connection_%s" % mode: len(per_all), "global_map_access": len(glob_get), "bodies_searched": len(tree)})
        if not per_all:
            helpers = [c for c in ctx.cg.reach([b0.fn]) if c.startswith("pubsub::") and c != b0.fn and c in ctx.prog.bodies and ctx.prog.bodies[c] not in tree]
            if any(field_calls(ctx.prog.bodies[h], {SI + kind}, r"HashSet::<std::vec::Vec<u8>>::%s(::<.*>)?$" % verb) for h in helpers):
                R.broken.append("%s: the connection's own %s set is updated in a helper the rule does not follow" % (fn_, kind)); continue
            R.finding(b0.fn, "pair:per-connection-missing", "%s does not update the connection's own %s set" % (fn_, kind), b0.loc()); continue
        b = per_all[0][0]
        per = [i for body, i in per_all if body is b]
        ids = [i for i, t in b.calls() if re.search(r"HashSet::<u64>::%s(::<.*>)?$" % verb, t["f"] or "")]
        ok = any(any(j in cfg.fwd(b, [i]) or i in cfg.fwd(b, [j]) for j in ids) for i in per) and bool(glob_get)
        if ok:
            # the id stored in / removed from the global set is the connection_id parameter
            ok = any(1 + 1 in up_origins(ctx, b, b.term(j)["a"][1])[1] for j in ids if len(b.term(j)["a"]) > 1)
        if not ok:
            R.finding(b0.fn, "pair:global-map-not-updated", "%s updates the connection's %s set without the matching %s of this connection in the global %s map" % (fn_, kind, "insert" if mode == "add" else "removal", kind), b.loc(per[0]))
        if mode == "del":
            # emptied subscriber set is removed from the global map; emptied SubscriberInfo removed
            gdel = up_field_calls(ctx, tree, {PM + kind}, GM + r"remove(::<.*>)?$")
            cdel = up_field_calls(ctx, tree, {PM + "connections"}, r"HashMap::<u64, pubsub::SubscriberInfo>::remove(::<.*>)?$")
            R.inst(b0.fn, "pair:empty-cleanup", {"global_entry_removed_when_empty": bool(gdel), "subscriber_info_removed_when_empty": bool(cdel)})
            if not gdel:
                R.finding(b0.fn, "pair:empty-set-left", "an emptied subscriber set is left in the global %s map" % kind, b0.loc())
            if not cdel:
                R.finding(b0.fn, "pair:empty-info-left", "a connection without subscriptions keeps its SubscriberInfo (it still counts as subscribed)", b0.loc())
    ua = ctx.prog.need(PS + "unsubscribe_all")
    for kind in ("channels", "patterns"):
        it = field_calls(ua, {PM + kind}, r"HashMap::<std::vec::Vec<u8>, std::collections::HashSet<u64>>::(iter_mut|values_mut|retain)(::<.*>)?$")
        R.inst(ua.fn, "all:" + kind, {"iterates_global_map": bool(it)})
        if not it:
            R.finding(ua.fn, "all:%s:not-swept" % kind, "unsubscribe_all does not sweep the global %s map" % kind, ua.loc())
    # each global map's sweep removes the connection id: in the closure handed to the sweeping call
    # (retain) or, for iter_mut / values_mut, somewhere in the function (one loop may sweep both
    # maps: `for index in [&mut *channels, &mut *patterns]`)
    swept = 0
    body_rm = any(re.search(r"HashSet::<u64>::remove", t["f"] or "") for _, t in ua.calls())
    for kind in ("channels", "patterns"):
        good = False
        for i in field_calls(ua, {PM + kind}, r"HashMap::<std::vec::Vec<u8>, std::collections::HashSet<u64>>::(iter_mut|values_mut|retain)(::<.*>)?$"):
            cl = [ctx.prog.bodies[c] for c in (ua.term(i).get("clos") or []) if c in ctx.prog.bodies]
            if any(re.search(r"HashSet::<u64>::remove", t["f"] or "") for c in cl for _, _, t in shared.deep_calls(ctx, c)) or (not cl and body_rm):
                good = True
        swept += good
    cdel = field_calls(ua, {PM + "connections"}, r"HashMap::<u64, pubsub::SubscriberInfo>::remove(::<.*>)?$")
    R.inst(ua.fn, "all:removal", {"maps_whose_sweep_removes_the_id": swept, "info_removed": bool(cdel)})
    if swept < 2 or not cdel:
        R.finding(ua.fn, "all:incomplete", "unsubscribe_all does not remove the connection from both maps and its SubscriberInfo", ua.loc())


def rule_count(ctx, R):
    """the acknowledged count is channels.len() + patterns.len() of the connection's entry, taken
    after the update"""
    for fn_, kind, mode in (("subscribe", "channels", "add"), ("unsubscribe", "channels", "del"), ("psubscribe", "patterns", "add"), ("punsubscribe", "patterns", "del")):
        b0 = ctx.prog.need(PS + fn_)
        b = b0; aggs = []
        for cand in shared.closure_tree(ctx, b0):
            found = [(i, st) for i, bb in enumerate(cand.bbs) for st in bb["s"] if st["k"] == "=" and st["r"]["k"] == "agg" and st["r"]["a"] == "pubsub::SubResult::SubResult"]
            if found:
                b = cand; aggs = found; break
        if not aggs:
            if len(shared.closure_tree(ctx, b0)) > 1:
                R.broken.append("%s: no SubResult construction found in the function or its closures" % fn_); continue
            R.finding(b0.fn, "count:no-result", "no SubResult is built", b0.loc()); continue
        per = field_calls(b, {SI + kind}, r"HashSet::<std::vec::Vec<u8>>::%s(::<.*>)?$" % ("insert" if mode == "add" else "remove"))
        for i, st in aggs:
            k = st["r"]["fs"].index("num_subscriptions")
            P = prov.operand_origins(b, st["r"]["o"][k], deep=True)
            lens = [(r[1], r[2]) for r in P.roots if r[0] == "call" and re.search(r"HashSet::<std::vec::Vec<u8>>::len$", r[1])]
            flds = set()
            for f, bbi in lens:
                flds |= {x for x in prov.operand_origins(b, b.term(bbi)["a"][0]).fields if x.startswith(SI)}
            both = (SI + "channels") in flds and (SI + "patterns") in flds
            # taken after the update: no path from a len() call to the update without passing the loop head again
            heads = set(cfg.loops(b).keys())
            after = all(not any(u in cfg.fwd(b, [bbi], cut=heads) for u in per) for f, bbi in lens)
            adds = any(st2["k"] == "=" and st2["r"]["k"] == "bin" and st2["r"]["op"] in ("Add", "AddWithOverflow") for x in cfg.bwd(b, [i], cut=heads) for st2 in b.stmts(x))
            R.inst(b.fn, "count", {"len_calls": len(lens), "channels_and_patterns": both, "after_update": after})
            if not both or not adds:
                R.finding(b.fn, "count:not-sum-of-both-sets", "the acknowledged subscription count is not channels.len() + patterns.len() of the connection", b.loc(i))
            elif not after:
                R.finding(b.fn, "count:taken-before-update", "the acknowledged subscription count is computed before the subscription set is updated", b.loc(i))


def rule_replycount(ctx, R):
    b = ctx.prog.need(SERVER + "handle_publish")
    import rules_rdb
    ints = []
    for i, bb in enumerate(b.bbs):
        for st in bb["s"]:
            if st["k"] == "=" and st["r"]["k"] == "agg" and st["r"]["a"] == "protocol::resp::RespFrame::Integer":
                ints.append((i, st))
    if not ints:
        R.finding(b.fn, "reply:no-integer", "PUBLISH does not reply with an integer", b.loc()); return
    pubs = [i for i, t in b.calls() if callee(t) == PS + "publish"]
    for i, st in ints:
        P = prov.operand_origins(b, st["r"]["o"][0], deep=True)
        lens = [r for r in P.roots if r[0] == "call" and re.search(r"Vec::<\(u64, std::option::Option<std::vec::Vec<u8>>\)>::len$", r[1])]
        same = False
        for r in lens:
            lroot = rules_rdb.root_locals(b, b.term(r[2])["a"][0])
            for j, t in b.calls():
                if re.search(r"IntoIterator>::into_iter$", t["f"] or "") and "(u64, std::option::Option<std::vec::Vec<u8>>)" in (t["f"] or ""):
                    if lroot & rules_rdb.root_locals(b, t["a"][0]):
                        same = True
        frompub = P.has_call(r"PubSubManager::publish$")
        R.inst(b.fn, "reply-count", {"len_of_receiver_list": bool(lens), "same_list_is_iterated": same, "from_publish": frompub})
        if not (lens and same and frompub):
            R.finding(b.fn, "reply:not-number-of-deliveries", "PUBLISH's integer reply is not the length of the receiver list it delivers to", b.loc(i))
    # every receiver gets a send
    sends = [i for i, t in b.calls() if any(re.search(r"Connection::(send_frame|send_raw|queue_frame|write_frame)$", callee(tt)) for c in t["clos"] for _, tt in ctx.prog.bodies[c].calls())]
    R.inst(b.fn, "delivery", {"send_sites": len(sends)})
    if not sends:
        R.finding(b.fn, "delivery:none", "PUBLISH never sends the message to the receivers", b.loc())


def rule_dedup(ctx, R):
    """one delivery per matching subscription: the receiver list is filled (push / extend) without a
    filter through a set keyed by connection id only; both the channel map and -- under a match
    test -- the pattern map are consulted.  Loops and iterator chains are read alike (the closure
    tree of publish is searched)."""
    b = ctx.prog.need(PS + "publish")
    RECV = r"\(u64, std::option::Option<std::vec::Vec<u8>>\)"
    fills = [(body, i) for body, i, t in shared.deep_calls(ctx, b)
             if re.search(r"Vec::<%s>::(push|extend|append|extend_from_slice)(::<.*>)?$|<std::vec::Vec<%s> as std::iter::Extend<.*>>::extend(::<.*>)?$|Iterator>::collect::<std::vec::Vec<%s>>$" % (RECV, RECV, RECV), t["f"] or "")]
    R.floor("receiver_pushes", min(len(fills), 1))
    guards = []
    for body, i, t in shared.deep_calls(ctx, b):
        if re.search(r"HashSet::<u64>::(insert|contains)(::<.*>)?$", t["f"] or "") and t["a"] and not op_is_const(t["a"][0]):
            P = prov.operand_origins(body, t["a"][0])
            if any(f.startswith(PM) for f in P.fields):
                continue      # the global subscriber sets themselves
            guards.append((body, i))
    R.inst(b.fn, "receiver-fill", {"fill_sites": len(fills), "connection_id_set_filters": len(guards)})
    if guards:
        gb, gi = guards[0]
        R.finding(b.fn, "dedup-by-connection",
                  "receivers are de-duplicated by connection id (line %d): a client subscribed to the channel and to a matching pattern (or to two matching patterns) gets the message once instead of once per subscription, and PUBLISH under-counts" % gb.bb_line(gi), gb.loc(gi))
    # both sources are consulted
    ch = pt = False; pm = []
    for body, i, t in shared.deep_calls(ctx, b):
        f = t["f"] or ""
        if re.search(r"HashMap::<.*>::get(::<.*>)?$", f) and t["a"] and PM + "channels" in prov.operand_origins(body, t["a"][0]).fields:
            ch = True
        if re.search(r"HashMap::<.*>::(iter|values|keys)$|IntoIterator>::into_iter$", f) and t["a"] and not op_is_const(t["a"][0]) and PM + "patterns" in prov.operand_origins(body, t["a"][0]).fields:
            pt = True
        if callee(t) == "pubsub::pattern_matches":
            pm.append((body, i))
    R.inst(b.fn, "sources", {"channel_lookup": ch, "pattern_iteration": pt, "pattern_match_test": bool(pm)})
    if not (ch and pt and pm):
        R.finding(b.fn, "sources:incomplete", "publish does not consult both the channel map and (with a match test) the pattern map", b.loc())
    # pattern receivers only under the match test: a fill whose element carries Some(pattern) is
    # control dependent on the test (loop form), or the test sits in a `filter` closure of the
    # chain that produces it (iterator form)
    in_filter = False
    for body, i, t in shared.deep_calls(ctx, b):
        if re.search(r"Iterator>::(filter|filter_map|take_while|skip_while)(::<.*>)?$", t["f"] or ""):
            for c in t.get("clos") or []:
                cb = ctx.prog.bodies.get(c)
                if cb is not None and any(callee(tt) == "pubsub::pattern_matches" for _, tt in cb.calls()):
                    in_filter = True
    for body, i in fills:
        t = body.term(i)
        if not re.search(r"::push$", t["f"] or "") or len(t["a"]) < 2:
            continue
        P = prov.operand_origins(body, t["a"][1], deep=True)
        is_pat = any(r[0] == "agg" and r[1] == "std::option::Option::Some" for r in P.roots)
        if is_pat:
            ok = in_filter
            for mb, m in pm:
                if mb is not body:
                    continue
                sw = shared._follow_to_switch(body, body.term(m)["t"], body.term(m)["d"]["l"])
                if sw and i in cfg.edge_dom_set(body, sw[0], sw[1]["o"]):
                    ok = True
            R.inst(b.fn, "pattern-push-guard", {"under_match_test": ok})
            if not ok:
                R.finding(b.fn, "pattern-push:not-under-match", "a pattern subscriber is added to the receivers without the pattern having matched the channel", body.loc(i))
    if pm and not in_filter and not any(re.search(r"::push$", body.term(i)["f"] or "") for body, i in fills):
        R.finding(b.fn, "pattern-push:not-under-match", "the pattern match test is not the filter of the chain that produces the pattern receivers", b.loc())


def rule_close(ctx, R):
    """every connection observed Closing is queued for removal"""
    b = ctx.prog.need(SERVER + "cleanup_connections")
    pushes = {i for i, t in b.calls() if re.search(r"Vec::<u64>::push$", t["f"] or "")}
    # the closing test: with_connection(closure calling is_closing) -> unwrap_or -> switch
    tests = []
    for i, t in b.calls():
        if any(any(callee(tt).endswith("Connection::is_closing") for _, tt in ctx.prog.bodies[c].calls()) for c in t["clos"] if c in ctx.prog.bodies):
            # follow to the bool switch
            cur = t["t"]; loc = t["d"]["l"]
            for _ in range(4):
                tt = b.term(cur)
                if tt["k"] == "call" and tt["a"] and op_local(tt["a"][0]) == loc:
                    loc = tt["d"]["l"]; cur = tt["t"]; continue
                break
            sw = shared._follow_to_switch(b, cur, loc)
            if sw:
                tests.append((i, sw))
    R.floor("closing_tests", len(tests))
    for i, sw in tests:
        tru = sw[1]["o"]
        heads = set(cfg.loops(b).keys())
        # from the closing edge, can the iteration end (reach the loop head) without the push?
        p = cfg.path_avoiding(b, [tru], heads | set(b.exits()), pushes)
        R.inst(b.fn, "closing-edge", {"test_at": b.loc(i), "always_queued_for_removal": p is None})
        if p is not None:
            R.finding(b.fn, "closing-not-removed",
                      "a connection found Closing can be skipped instead of being removed (line %d): it stays registered (subscriptions, counts as a receiver) forever" % b.bb_line(p[-1]), b.loc(i),
                      witness=["bb%d %s" % (x, b.loc(x)) for x in p][:8])


def rule_record(ctx, R):
    """the connection's SubscriberInfo is dropped only when BOTH its channel set and its pattern
    set are empty (or in unsubscribe_all, which sweeps both global maps first): a record dropped
    while the other kind of subscription remains leaves the connection in the global maps with no
    record -- later (P)UNSUBSCRIBE gets no acknowledgement, messages keep arriving, counts are off."""
    n = 0
    for fn, b in sorted(ctx.prog.bodies.items()):
        if not fn.startswith(PS) or "::tests::" in fn or b.kind == "Closure":
            continue
        cdel = field_calls(b, {PM + "connections"}, r"HashMap::<u64, pubsub::SubscriberInfo>::remove(::<.*>)?$")
        if not cdel:
            continue
        # emptiness tests of the two per-connection sets: blocks reachable only after the set was
        # found empty (path-sensitive, so `a.is_empty() && b.is_empty()` may also be a helper's
        # result or a flag)
        empty_reg = {}
        for kind in ("channels", "patterns"):
            tests = set(field_calls(b, {SI + kind}, r"HashSet::<std::vec::Vec<u8>>::is_empty$"))
            class _S(boolpath.Spec):
                def call(self, b_, bbi, t, tests=tests):
                    return boolpath.A if bbi in tests else None
            try:
                res = boolpath.explore(b, _S(), cap=200000)
            except boolpath.TooManyStates as e:
                R.broken.append(str(e)); res = None
            empty_reg[kind] = (set(range(len(b.bbs))) - set(res.reached)) if res is not None and tests else set()
        sweeps = all(field_calls(b, {PM + kind}, r"HashMap::<std::vec::Vec<u8>, std::collections::HashSet<u64>>::(iter_mut|values_mut|retain)(::<.*>)?$") for kind in ("channels", "patterns"))
        for k, i in enumerate(cdel):
            n += 1
            both = i in empty_reg["channels"] and i in empty_reg["patterns"]
            R.inst(fn, "record-removal#%d" % k, {"function": fn, "at": b.loc(i), "under_channels_empty": i in empty_reg["channels"], "under_patterns_empty": i in empty_reg["patterns"], "function_sweeps_both_global_maps": sweeps})
            if not both and not sweeps:
                R.finding(fn, "record-removal:not-under-both-empty",
                          "%s drops the connection's subscription record (line %d) on a path where its channel set and its pattern set have not both been found empty: a client holding only the other kind of subscription loses its record while it is still listed in the global map" % (fn.split("::")[-1], b.bb_line(i)), b.loc(i))
    R.floor("subscription_record_removals", n)



def rule_label(ctx, R):
    """a pmessage carries the pattern of the subscription it is delivered for: in handle_publish
    every call of format_pmessage (a) lies inside the loop over the receiver list, (b) takes its
    pattern from that loop's current item, and (c) its result is not kept across iterations (no
    path from the call to a later iteration's send that bypasses a fresh call)"""
    b = ctx.prog.need(SERVER + "handle_publish")
    calls = [i for i, t in b.calls() if callee(t) == "pubsub::format_pmessage"]
    R.floor("format_pmessage_calls", len(calls))
    lps = cfg.loops(b)
    recv_loops = []
    for h, body in lps.items():
        for x in body:
            t = b.term(x)
            if t["k"] == "call" and re.search(r"Iterator>::next$", t["f"] or "") and "(u64, std::option::Option<std::vec::Vec<u8>>)" in (t["f"] or "") + b.locals[t["d"]["l"]]:
                recv_loops.append((h, body, x))
    sends = [i for i, t in b.calls() if any(re.search(r"Connection::(send_frame|send_raw|queue_frame|write_frame)$", callee(tt)) for c in t["clos"] for _, tt in ctx.prog.bodies[c].calls())]
    for k, i in enumerate(calls):
        t = b.term(i)
        inloop = [(h, body, nx) for h, body, nx in recv_loops if i in body]
        from_item = False
        if inloop and t["a"] and not op_is_const(t["a"][0]):
            P = prov.operand_origins(b, t["a"][0])
            from_item = any(r[0] == "call" and re.search(r"Iterator>::next$", r[1]) and r[2] == nx for _, _, nx in inloop for r in P.roots) or P.has_call(r"Iterator>::next$")
        # (c) each send in the loop is reached in the same iteration only through ... : a send
        # reachable from the loop head without passing format_pmessage on the pattern edge would
        # reuse an older frame.  Approximation that is exact for this shape: the call must not be
        # control-dependent on a test of an Option cache (is_none / discriminant of a local
        # Option<Vec<u8>> or Option<RespFrame> that lives across iterations)
        cached = False
        for y, by in enumerate(b.bbs):
            ty = by["t"]
            if ty["k"] != "switch" or not inloop or y not in inloop[0][1]:
                continue
            dl = op_local(ty["d"])
            for st in by["s"]:
                if st["k"] == "=" and st["l"]["l"] == dl and st["r"]["k"] == "discr":
                    ty_ = b.locals[st["r"]["p"]["l"]]
                    if re.match(r"^std::option::Option<(std::vec::Vec<u8>|protocol::resp::RespFrame|std::sync::Arc<.*>)>$", ty_) and not st["r"]["p"]["p"]:
                        # defined outside the loop?
                        defs_in = [db for kind, db, d in prov.build_defs(b).get(st["r"]["p"]["l"], ()) if db in inloop[0][1]]
                        defs_out = [db for kind, db, d in prov.build_defs(b).get(st["r"]["p"]["l"], ()) if db not in inloop[0][1]]
                        if defs_out and any(i in cfg.edge_dom_set(b, y, tgt) for tgt in set(b.succs(y))):
                            cached = True
        ok = bool(inloop) and from_item and not cached
        R.inst(b.fn, "pmessage-label#%d" % k, {"inside_receiver_loop": bool(inloop), "pattern_from_current_receiver": from_item, "built_under_a_cross_iteration_cache_test": cached})
        if not ok:
            R.finding(b.fn, "pmessage-label:not-per-receiver",
                      "the pmessage frame is not built for each pattern receiver from that receiver's own pattern (%s): a client subscribed to another matching pattern receives the message labelled with the wrong pattern" % (
                          "built once and cached across receivers" if cached else "outside the receiver loop" if not inloop else "pattern does not come from the current receiver"), b.loc(i))


# ---- R-PS-BYTES ---------------------------------------------------------------------------------
BYTE_ALTERING = re.compile(
    r"(::(to_lowercase|to_uppercase|to_ascii_lowercase|to_ascii_uppercase|make_ascii_lowercase|make_ascii_uppercase|"
    r"from_utf8_lossy|to_string_lossy|from_utf8|from_utf8_unchecked|to_str|replace|replacen|truncate|split_off|retain|dedup|"
    r"trim|trim_start|trim_end|trim_ascii|trim_matches|trim_start_matches|trim_end_matches|strip_prefix|strip_suffix|"
    r"chars|escape_default|escape_debug|escape_ascii|sort|sort_unstable|reverse)(::<.*>)?$)")
PS_SINK = re.compile(r"^pubsub::(PubSubManager::(subscribe|unsubscribe|psubscribe|punsubscribe|publish)|format_\w+)$")


def rule_bytes(ctx, R):
    """`channel, pattern and payload bytes intact`: whatever the command handlers hand to the
    subscription manager and to the message formatters is the client's bytes -- on the backward,
    interprocedural value flow into those arguments there is no lossy or UTF-8-only decoding, case
    mapping, trimming, cutting, sorting or de-duplication"""
    import flow
    n = 0
    memo = {}
    for fn, b in sorted(ctx.prog.bodies.items()):
        if not fn.startswith("network::") or "::tests::" in fn:
            continue
        for i, t in b.calls():
            c = callee(t)
            if not PS_SINK.match(c):
                continue
            cb = ctx.prog.bodies.get(c)
            for k, a in enumerate(t["a"]):
                if op_is_const(a):
                    continue
                ty = b.locals[op_place(a)["l"]] or ""
                if "u8" not in ty or "PubSubManager" in ty:
                    continue
                n += 1
                calls = flow.flow_calls(ctx, fn, a, memo=memo)
                bad = sorted((f_, w, bb_) for (f_, w, bb_) in calls if BYTE_ALTERING.search(f_ or ""))
                R.inst(fn, "sink:%s#%d" % (c.split("::")[-1], k), {"function": fn, "sink": c, "argument": k, "at": b.loc(i), "calls_on_the_value_flow": len(calls), "byte_altering": [shared.short_callee(x[0]) for x in bad][:4]})
                if bad:
                    f_, w, bb_ = bad[0]
                    R.finding(fn, "sink:%s#%d:altered-by:%s" % (c.split("::")[-1], k, re.search(r"::(\w+)(::<.*>)?$", f_).group(1)),
                              "the bytes handed to %s (argument %d, line %d) have passed through %s (%s): channel / pattern / payload bytes do not arrive intact -- names that are not valid UTF-8 are stored mangled, so publishes on the real channel are not delivered and distinct names collapse into one"
                              % (c.split("::")[-1], k, b.bb_line(i), shared.short_callee(f_), ctx.prog.bodies[w].loc(bb_)), b.loc(i))
    R.floor("pubsub_byte_arguments", n)


# ---- R-PS-ENTRYDROP -------------------------------------------------------------------------------
_SUBMAP = r"std::collections::HashMap::<std::vec::Vec<u8>, std::collections::HashSet<u64>>::"


class _EmptySpec(boolpath.Spec):
    """evidence: a subscriber set was found empty"""
    def call(s, b, bbi, t):
        if re.search(r"^std::collections::HashSet::<u64>::is_empty$", t["f"] or ""):
            return boolpath.A
        return None


def rule_entrydrop(ctx, R):
    """a channel / pattern entry of the global maps is dropped only when its subscriber set has
    become empty: a `retain` closure answers `drop` (false) only under `subscribers.is_empty()`,
    a `remove` of an entry happens under that test, or removes keys that were collected under it.
    Dropping an entry because the leaving connection was IN it takes the other subscribers along:
    they stop receiving and PUBLISH stops counting them."""
    n = 0
    for fn, b in sorted(ctx.prog.bodies.items()):
        if not fn.startswith(PS) or "::tests::" in fn:
            continue
        if b.kind == "Closure" and not any(re.search(_SUBMAP + r"(retain|remove)(::<.*>)?$", t["f"] or "") for _, t in b.calls()):
            continue
        try:
            ex = boolpath.explore(b, _EmptySpec())
        except boolpath.TooManyStates as e:
            R.broken.append(str(e)); continue
        for i, t in b.calls():
            f = t["f"] or ""
            if b.bbs[i]["cleanup"]:
                continue
            if re.search(_SUBMAP + r"retain(::<.*>)?$", f):
                n += 1
                ok = False
                for cl in t.get("clos") or ():
                    cb = ctx.prog.bodies.get(cl)
                    if cb is not None:
                        try:
                            ok = boolpath.ret_kind(cb, _EmptySpec()) == boolpath.N
                        except boolpath.TooManyStates:
                            ok = False
                R.inst(fn, "entry-drop:retain", {"function": fn, "at": b.loc(i), "drops_only_empty_entries": ok})
                if not ok:
                    R.finding(fn, "entry-drop:retain:not-tied-to-emptiness",
                              "%s drops entries of a subscriber map with retain (line %d) and the closure can answer `drop` for a set that is not empty: every other client subscribed to the same channel / pattern is dropped with the leaving one" % (fn.split("::")[-1], b.bb_line(i)), b.loc(i))
            elif re.search(_SUBMAP + r"remove(::<.*>)?$", f) and len(t["a"]) >= 2:
                n += 1
                ok = i not in ex.reached
                if not ok and not op_is_const(t["a"][1]):
                    # keys collected earlier under the emptiness test
                    P = prov.operand_origins(b, t["a"][1], deep=True)
                    srcs = set(rules_rdb_root_locals(b, t["a"][1]))
                    for c_, bb_ in list(P.via) + [(r[1], r[2]) for r in P.roots if r[0] == "call"]:
                        if re.search(r"IntoIterator>::into_iter$|::iter$|::drain", c_):
                            tt = b.term(bb_)
                            if tt["a"] and not op_is_const(tt["a"][0]):
                                srcs |= rules_rdb_root_locals(b, tt["a"][0])
                        if re.search(r"Vec::<std::vec::Vec<u8>>::(new|with_capacity)$", c_):
                            srcs.add(b.term(bb_)["d"]["l"])
                    pushes = [j for j, tj in b.calls() if re.search(r"Vec::<std::vec::Vec<u8>>::push$", tj["f"] or "") and tj["a"] and not op_is_const(tj["a"][0]) and (rules_rdb_root_locals(b, tj["a"][0]) & srcs)]
                    if pushes and all(j not in ex.reached for j in pushes):
                        ok = True
                R.inst(fn, "entry-drop:remove", {"function": fn, "at": b.loc(i), "under_or_collected_under_an_emptiness_test": ok})
                if not ok:
                    R.finding(fn, "entry-drop:remove:not-tied-to-emptiness",
                              "%s removes an entry of a subscriber map (line %d) on a path with no test that its subscriber set is empty" % (fn.split("::")[-1], b.bb_line(i)), b.loc(i))
    R.floor("subscriber_map_entry_drops", n)


def rules_rdb_root_locals(b, o):
    import rules_rdb
    return rules_rdb.root_locals(b, o)


# ---- R-PS-ACKSENT ---------------------------------------------------------------------------------
def rule_acksent(ctx, R):
    """every (P)(UN)SUBSCRIBE is acknowledged: a handler that returns NoResponse (it sends its
    replies itself) has sent at least one frame.  The sends sit in a loop over the manager's
    results; that loop is known to run when the handler refused a call without names up front (an
    arity test on parts.len() with an error return), otherwise an emptiness test of the results
    must lead to a send of its own (the `unsubscribe nil 0` reply of a client that has no
    subscriptions).  A command without any reply leaves the client waiting for ever and shifts
    the pairing of every later reply."""
    import rules_cmd
    n = 0
    # the handlers are found by what they do: functions of the server that call the
    # subscription manager's (p)(un)subscribe and build a NoResponse
    MAN = {PS + "subscribe": "SUBSCRIBE", PS + "unsubscribe": "UNSUBSCRIBE", PS + "psubscribe": "PSUBSCRIBE", PS + "punsubscribe": "PUNSUBSCRIBE"}
    for fn, b in sorted(ctx.prog.bodies.items()):
        if not fn.startswith("network::") or b.kind == "Closure" or "::tests::" in fn:
            continue
        nms = sorted({MAN[callee(t)] for body in shared.closure_tree(ctx, b) for _, t in body.calls() if callee(t) in MAN})
        for nm in nms[:1]:
            nores = [i for i, bb in enumerate(b.bbs) for st in bb["s"] if st["k"] == "=" and st["r"]["k"] == "agg" and st["r"]["a"] == "protocol::resp::RespFrame::NoResponse"]
            if not nores:
                continue
            n += 1
            tree = shared.closure_tree(ctx, b)
            certain = False; looped = False; guarded_empty_send = False
            for body in tree:
                lps = cfg.loops(body)
                inloop = set().union(*lps.values()) if lps else set()
                for i, t in body.calls():
                    if callee(t) != "network::connection::Connection::send_frame" or body.bbs[i]["cleanup"]:
                        continue
                    if i in inloop:
                        looped = True
                    else:
                        # outside loops: certain unless it sits under an emptiness test (then it
                        # is the reply of the empty case)
                        under_empty = False
                        for j, tj in body.calls():
                            if re.search(r"::is_empty$", tj["f"] or "") and cfg.dominates(body, j, i) and j != i:
                                under_empty = True
                        if under_empty:
                            guarded_empty_send = True
                        else:
                            certain = True
            # the empty case answered in expression form: `results.is_empty().then(|| frame)` /
            # `.then_some(frame)` chained in front of the per-result frames
            for body in tree:
                for i, t in body.calls():
                    if re.search(r"bool>::then(_some)?::<protocol::resp::RespFrame", t["f"] or "") and t["a"] and not op_is_const(t["a"][0]):
                        if prov.operand_origins(body, t["a"][0], deep=True).has_call(r"::is_empty$"):
                            guarded_empty_send = True
            # an arity refusal up front: comparison of a slice length with a constant >= 2 whose
            # one edge returns an error reply
            arity = False
            for x, bb in enumerate(b.bbs):
                for st in bb["s"]:
                    if st["k"] == "=" and st["r"]["k"] == "bin" and st["r"].get("op") in ("Lt", "Le", "Ge", "Gt", "Eq", "Ne"):
                        ops = (st["r"]["a"], st["r"]["b"])
                        cs = [o for o in ops if op_is_const(o)]
                        vs = [o for o in ops if not op_is_const(o)]
                        if cs and vs and str(cs[0].get("v")) in ("1", "2") and prov.operand_origins(b, vs[0]).has_call(r"::len$") and all(cfg.dominates(b, x, r_) for r_ in nores):
                            # a refusal: one edge of the test cannot reach the NoResponse any more
                            tt = bb["t"]
                            if tt["k"] == "switch":
                                for tgt in set([v for _, v in tt["ts"]] + [tt["o"]]):
                                    if not (cfg.fwd(b, [tgt]) & set(nores)):
                                        arity = True
            ok = certain or (looped and (arity or guarded_empty_send))
            R.inst(fn, "acknowledgement", {"handler": fn, "command": nm, "send_outside_loops": certain, "sends_in_a_result_loop": looped, "names_required_by_an_arity_test": arity, "empty_results_answered": guarded_empty_send})
            if not ok:
                R.finding(fn, "acknowledgement:may-send-nothing",
                          "%s returns NoResponse although its only sends sit in a loop over the manager's results, names are optional, and an empty result has no reply of its own: %s from a client without subscriptions gets no reply at all (Redis answers `%s nil 0`), so the client waits for ever and later replies pair with the wrong commands" % (fn.split("::")[-1], nm, nm.lower()), b.loc(nores[0]))
    R.floor("self_replying_handlers", n)


# ---- R-PS-SUBSCRIBED ------------------------------------------------------------------------------
def rule_subscribed(ctx, R):
    """`is this connection a subscriber` (what keeps an idle subscriber from being timed out and
    disconnected, which would silently end its subscriptions) means channels OR patterns: a
    bool-returning function of the manager that takes a connection id and looks into the
    connection's record consults both sets, or neither (presence of the record)."""
    n = 0
    for fn, b in sorted(ctx.prog.bodies.items()):
        if not fn.startswith(PS) or "::tests::" in fn or b.kind == "Closure" or b.locals[0] != "bool":
            continue
        if not any(b.locals[k] == "u64" for k in range(1, b.nargs + 1)):
            continue
        seen = set()
        for body in shared.closure_tree(ctx, b):
            for bb in body.bbs:
                for st in bb["s"]:
                    if st["k"] != "=":
                        continue
                    r = st["r"]
                    pl = r.get("p") if r["k"] in ("ref", "discr") else (op_place(r["o"]) if r["k"] in ("use", "cast") and not op_is_const(r["o"]) else None)
                    for e in (pl["p"] if pl else ()):
                        if isinstance(e, dict) and e.get("f") in (SI + "channels", SI + "patterns"):
                            seen.add(e["f"])
        n += 1
        ok = len(seen) != 1
        R.inst(fn, "subscriber-test", {"function": fn, "sets_consulted": sorted(x.split(".")[-1] for x in seen), "both_or_neither": ok})
        if not ok:
            R.finding(fn, "subscriber-test:one-kind-only",
                      "%s decides whether a connection is a subscriber from its %s alone: a client holding only the other kind of subscription is not seen as a subscriber (an idle one is timed out and its subscriptions end without a word)" % (fn.split("::")[-1], sorted(seen)[0].split(".")[-1]), b.loc())
    R.floor("subscriber_tests", n)
