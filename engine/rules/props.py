"""Property -> rule list. Each rule: (id, text, function(ctx, report))."""
import rules_cmd, rules_expire


def rules_for(pid):
    return REGISTRY[pid]()


def _c01():
    return [
        ("R-DISPATCH", "every command named by the property has a dispatcher arm that reaches the storage engine, with the effect class (read-only / mutating) and the storage primitive its reference semantics need",
         rules_cmd.make_dispatch_rule("C01")),
        ("R-ATOMIC", "no validation refusal is reachable after a dataset mutation (handlers: after the success continuation of a mutating engine call; engine methods: after a DATA-MUT site)",
         rules_cmd.rule_atomic("C01")),
    ]


def _c02():
    return [
        ("R-DISPATCH", "EXPIRE/PEXPIRE/PERSIST/TTL/PTTL have arms with the right effect class and primitive", rules_cmd.make_dispatch_rule("C02")),
        ("R-EXPIRE-X1", "every lookup of the shard map in a storage-engine method flows into is_expired() (lazy expiry independent of the sweeper)", rules_expire.rule_x1()),
        ("R-EXPIRE-X2", "the sweeper removes a key only under a dominating is_expired() test of the stored value, inside the same write-lock scope", rules_expire.rule_x2),
        ("R-EXPIRE-X3", "deadline written only by the ValueMetadata setters; TTL setters are called only from dedicated TTL functions; every insert stores a fresh StoredValue or (RENAME) the one it removed", rules_expire.rule_x3),
        ("R-EXPIRE-X4", "a function that stores/clears a deadline also updates the expiry index", rules_expire.rule_x4),
    ]


REGISTRY = {
    "C01": _c01,
    "C02": _c02,
}
