"""Property -> rule list. Each rule: (id, text, function(ctx, report))."""
import rules_order, rules_cmd, rules_expire, rules_conn, rules_auth, rules_tx, rules_db, rules_zset, rules_rdb, rules_aof, rules_block, rules_pubsub, rules_stream, rules_scan, rules_panic, rules_lua, rules_int, rules_coll
from shared import SERVER


def rules_for(pid):
    return REGISTRY[pid]()


def _c01():
    return [
        ("R-RANGE-START", "no `start < 0` test (after counting from the end) sends a range command to its empty answer: a negative start means the first element", rules_coll.rule_range_start("C01")),
        ("R-ARG-ORDER", "the command layer does not re-order (sort / reverse / dedup) pairs or list elements it collected from the command's frames before applying them", rules_cmd.make_arg_order_rule("C01")),
        ("R-DISPATCH", "every command named by the property has a dispatcher arm that reaches the storage engine, with the effect class (read-only / mutating) and the storage primitive its reference semantics need",
         rules_cmd.make_dispatch_rule("C01")),
        ("R-BYTES-ENGINE", "every bytes-only argument (key, value, member, field, field map) the command layer hands to the storage engine carries the client's bytes: no lossy / UTF-8-only decoding, case mapping, cutting or sorting on its value flow inside the handler", rules_cmd.make_bytes_engine_rule("C01")),
        ("R-KEYS-GLOB", "every element of a KEYS answer went through the glob matcher: the vector returned is filled only under pattern_matches (no answer built from the pattern itself)", rules_cmd.rule_keys_glob),
        ("R-ATOMIC", "no validation refusal is reachable after a dataset mutation (handlers: after the success continuation of a mutating engine call; engine methods: after a DATA-MUT site)",
         rules_cmd.rule_atomic("C01")),
        ("R-INT-CANON", "integers stored as text are read through the std i64 parser plus a round-trip (canonical form, whole i64 range); the INCR family takes the stored number from such a parser", rules_int.make_int_canon("C01")),
        ("R-WRITE-MUST", "the engine methods behind commands whose success always writes (APPEND, INCR family, LPUSH/RPUSH, XADD) reach an Ok result only through a dataset mutation", rules_cmd.rule_write_must),
        ("R-EXPIRE-KEEP", "in the engine methods behind in-place modifying commands a freshly constructed StoredValue (no TTL) enters the key space only where the key has no live entry: the TTL survives in-place modifications", rules_expire.rule_keep),
    ]


def _c02():
    return [
        ("R-DISPATCH", "EXPIRE/PEXPIRE/PERSIST/TTL/PTTL have arms with the right effect class and primitive", rules_cmd.make_dispatch_rule("C02")),
        ("R-EMPTY", "a key whose collection a command empties is removed with its metadata (an empty value left stored keeps its deadline, and the key re-created by the next push inherits it)", rules_cmd.rule_empty),
        ("R-EXPIRE-X1", "every lookup of the shard map in a storage-engine method flows into is_expired() (lazy expiry independent of the sweeper)", rules_expire.rule_x1()),
        ("R-EXPIRE-X2", "the sweeper removes a key only under a dominating is_expired() test of the stored value, inside the same write-lock scope", rules_expire.rule_x2),
        ("R-EXPIRE-X3", "deadline written only by the ValueMetadata setters; TTL setters are called only from dedicated TTL functions; every insert stores a fresh StoredValue or (RENAME) the one it removed", rules_expire.rule_x3),
        ("R-EXPIRE-X4", "a function that stores/clears a deadline also updates the expiry index", rules_expire.rule_x4),
        ("R-EXPIRE-KEEP", "in the engine methods behind in-place modifying commands a freshly constructed StoredValue (no TTL) enters the key space only where the key has no live entry: the TTL survives in-place modifications", rules_expire.rule_keep),
        ("R-EXPIRE-INDEXREAD", "deadlines that are reported, persisted or acted on come from the stored value's metadata: only the sweeper reads the (possibly stale) expiry index", rules_expire.rule_index_read),
        ("R-RDB-CLOCK", "a remaining TTL is converted to the absolute deadline in the dump (and back at load) with a clock value read in the same function invocation, not one cached earlier", rules_rdb.rule_deadline_clock),
        ("R-RDB-CARRY", "per-record loader state kept in a reader field (an expiry waiting for its key) is reset on every successful exit of the function that consumes it: no record inherits the previous record's TTL", rules_rdb.rule_carry),
    ]


def _c04():
    return [
        ("R-RANGE-START", "no `start < 0` test (after counting from the end) sends a range command to its empty answer: a negative start means the first element", rules_coll.rule_range_start("C04")),
        ("R-ARG-ORDER", "the command layer does not re-order (sort / reverse / dedup) pairs or list elements it collected from the command's frames before applying them", rules_cmd.make_arg_order_rule("C04")),
        ("R-DISPATCH", "every sorted-set command named by the property has a dispatcher arm reaching the engine with the right effect class and skip-list primitive", rules_cmd.make_dispatch_rule("C04")),
        ("R-BYTES-ENGINE", "every bytes-only argument (key, value, member, field, field map) the command layer hands to the storage engine carries the client's bytes: no lossy / UTF-8-only decoding, case mapping, cutting or sorting on its value flow inside the handler", rules_cmd.make_bytes_engine_rule("C04")),
        ("R-ATOMIC", "a refused multi-member ZADD adds nothing: no validation refusal reachable after the first mutation", rules_cmd.rule_atomic("C04")),
        ("R-NAN", "every score handed to SkipList::insert in the engine is dominated by an is_nan()/is_finite() refusal of that very value", rules_zset.rule_nan),
        ("R-NAN-FRONT", "each ZADD/ZINCRBY front end (direct handler, script-side parser) tests every score it parses for NaN itself, before the engine is called for the first pair", rules_zset.rule_nan_frontends),
        ("R-BOUNDS-USED", "an engine method taking the two score bounds answers from a call that received both (ZCOUNT = |ZRANGEBYSCORE| for infinite and reversed bounds too), with the empty answer, or behind exact tests of both bounds", rules_zset.rule_bounds_used),
        ("R-SCORE-EXTREMES", "no score-range call receives the finite extremes f64::MIN / f64::MAX as a bound (infinities are scores: `everything` is -inf..+inf or an unfiltered walk)", rules_zset.rule_score_extremes),
        ("R-COUNT-STOP", "a range bound computed as `count - 1` is dominated by a comparison of the count with 0 or 1 (count 0 must not become stop -1 = `to the end`)", rules_cmd.rule_count_stop),
        ("R-RANGE-STOP", "index ranges: the stop index is never clamped from below (a stop below -len is the empty range) and a rank-range read is dominated by a start-versus-length test in both directions", rules_coll.rule_range_stop("C04")),
        ("R-SKIP-PAIR", "key index, node links and length stay in step: index insert -> node link, re-score unlinks before linking, index remove -> unlink, length written only by link/unlink", rules_zset.rule_skip_pair),
        ("R-EMPTY", "removing the last member removes the key", rules_cmd.rule_empty),
        ("R-ZSET-LATEST", "an engine method that writes scores returns success only after handing the score to SkipList::insert, or after an exact == showed the stored score already equals it (each member holds its latest score)", rules_zset.rule_latest),
        ("R-SKIP-CMP", "both comparators are the lexicographic (score, member) order: partial_cmp(first score, second score), Equal arm = Ord::cmp(first member, second member), other arms = partial_cmp's own result", rules_zset.rule_skip_cmp),
        ("R-SKIP-SEARCH", "the three search loops (link position, unlink position, rank) agree: full comparator on (next.value, next.key) against the sought pair, cursor advanced on Less only", rules_zset.rule_skip_search),
        ("R-SKIP-KEYSTORE", "the ordering key of a linked node is not overwritten in place on a path where a bare score comparison admits a tie (or without any comparison); after the index is updated every path links a node", rules_zset.rule_skip_keystore),
    ]


def _c05():
    return [
        ("R-PARSE-AGG-INCOMPLETE", "in the aggregate parsers every `incomplete` exit is decided by a sub-parser's own answer, never by an estimate from the announced element count", rules_conn.rule_agg_incomplete),
        ("R-ERRPROP", "an Err from executing a frame never leaves the connection loop except for Connection/Io errors: it is converted into an error reply", rules_conn.rule_errprop),
        ("R-ERRPROP-IO", "no error of the Io/Connection class (which the connection loop takes for a vanished peer) can propagate out of process_normal_command: no `?` on std::io::Error and no Io/Connection construction along the error flow", rules_conn.rule_errprop_io),
        ("R-REPLY1", "each iteration of the frame loop pushes exactly one reply; the loop is not left mid-batch", rules_conn.rule_reply1),
        ("R-PARSEERR", "a protocol error from parse_frame is queued/sent as an error reply on every path (no silent break)", rules_conn.rule_parseerr),
        ("R-READ-FEED", "once Connection::read has fed the parser in a call it returns `data available`: no error / `nothing read` exit is reachable after a feed (path-sensitive), so received commands are always parsed", rules_conn.rule_read_feed),
        ("R-SOCK-WRITE", "every write to the non-blocking client socket is a partial write of write_buffer[write_offset..] whose returned count is added to write_offset (no all-or-nothing write_all / write! that loses the progress of a partial write)", rules_conn.rule_sock_write),
        ("R-BLK-TIMEOUT-REPLY", "the nil reply of the timeout pass is sent only under a still-Blocked test of the connection (one reply per timed-out command, however many keys it named)", rules_block.rule_timeout_reply),
        ("R-PS-ACKSENT", "a (P)(UN)SUBSCRIBE handler that returns NoResponse has sent at least one frame: its result loop runs (names required by an arity test) or the empty result has a reply of its own", rules_pubsub.rule_acksent),
        ("R-CODEC-INLINE", "an inline (non-RESP) form the incremental parser recognises by a fixed-length comparison has a prefix test answering `incomplete` for a partial arrival (chunking independence)", rules_conn.rule_codec_inline),
        ("R-PARSE-DRAIN", "the loop draining the parser ends only when parse_frame reports an incomplete buffer or an error (no frame budget that strands complete commands until the next read)", rules_conn.rule_parse_drain),
        ("R-CODEC-SHORTTEST", "a non-panicking content test on an open-ended sub-slice of the input whose negative outcome leads to a protocol error is dominated by a length test covering the bytes examined (no error decided from bytes that have not arrived)", rules_conn.rule_codec_shorttest),
        ("R-PARSEERR-CLOSE", "the consumer of queued protocol errors pushes an error reply and requests the connection to be closed", rules_conn.rule_parseerr_close),
        ("R-CRLF", "line-framed reply variants write payload bytes only through a CR/LF-inspecting function; bulk strings write len() of the slice they write", rules_conn.rule_crlf),
        ("R-TXNORESP", "nothing reachable from EXEC can yield NoResponse or register a blocked client", rules_conn.rule_txnoresp),
    ]


def _c09():
    return [
        ("R-RDB-STREAM-STATE", "every dump-writer function that reads a stream's entries also reads its last ID (the high-water mark and the existence of an emptied stream survive a restart)", rules_stream.rule_rdb_stream_state),
        ("R-RDB-OPC", "variant -> opcode (both writers) composed with opcode -> constructed variant (reader) is the identity on all six value types; the two writers agree", rules_rdb.rule_opc),
        ("R-RDB-LEN", "length encoding: encoder class bounds, tags, masks, shifts and byte order are consistent with the decoder's class switch; no silent truncation; scalar byte-order pairs", rules_rdb.rule_len),
        ("R-RDB-SHAPE", "per variant the sequence of primitive writes (with loop nesting) equals the sequence of primitive reads; expiry prefix mirrored", rules_rdb.rule_shape),
        ("R-RDB-COUNT", "the element count written is len() of the very collection iterated", rules_rdb.rule_count),
        ("R-SCORE-EXTREMES", "no score-range call receives the finite extremes f64::MIN / f64::MAX as a bound (infinities are scores: `everything` is -inf..+inf or an unfiltered walk)", rules_zset.rule_score_extremes),
        ("R-RDB-TYPE", "the loader decides the value type from the opcode only (no comparison of payload bytes with a constant)", rules_rdb.rule_type),
        ("R-RDB-EXPIRED", "a record carrying an expiry is never loaded as a persistent key", rules_rdb.rule_expired_on_load),
        ("R-RDB-TTLAPPLY", "the record loader returns successfully only after handing the record's TTL to a storage call, or where the TTL is known to be None (every value type keeps its deadline across a restart)", rules_rdb.rule_ttl_applied),
        ("R-RDB-DB", "loader stores into the database of the last SelectDb record; the writer's selector is the database it reads from", rules_rdb.rule_rdb_db),
        ("R-EXPIRE-INDEXREAD", "deadlines that are reported, persisted or acted on come from the stored value's metadata: only the sweeper reads the (possibly stale) expiry index", rules_expire.rule_index_read),
        ("R-RDB-TEXTNUM", "where the snapshot writer parses dataset text as a number, the number replaces the text only under a round trip n.to_string() == text (strings are stored byte for byte)", rules_int.rule_rdb_text_numbers),
        ("R-RDB-SIBLINGS", "every reader function that dispatches on the value-type byte (skipper, validator) consumes per type exactly what the writer emits", rules_rdb.rule_shape_siblings),
        ("R-RDB-CLOCK", "a remaining TTL is converted to the absolute deadline in the dump (and back at load) with a clock value read in the same function invocation, not one cached earlier", rules_rdb.rule_deadline_clock),
        ("R-RDB-CARRY", "per-record loader state kept in a reader field (an expiry waiting for its key) is reset on every successful exit of the function that consumes it: no record inherits the previous record's TTL", rules_rdb.rule_carry),
    ]


def _c10():
    return [
        ("R-SAVE-TMP", "save() writes only a temp path, renames temp->final only on the success continuation of write_snapshot, which returns Ok only after a successful flush; nothing else in the module opens files for writing", rules_rdb.rule_save_tmp),
        ("R-SAVE-EXCL", "write_snapshot runs under one single-writer guard", rules_rdb.rule_save_excl),
        ("R-BGSAVE-FLAG", "every exit of the BGSAVE thread (return and unwind) clears bgsave_in_progress", rules_rdb.rule_bgsave_flag),
        ("R-SNAP-ONE", "per key, value and TTL come from one engine call", rules_rdb.rule_snap_one),
        ("R-RDB-CLOCK", "the remaining TTL a key had when it was read is converted to the absolute deadline with a clock value read in the same function invocation, not one cached when the save started (each key's TTL belongs to the instant it was read)", rules_rdb.rule_deadline_clock),
        ("R-RDB-COUNT", "count and elements of a shared collection come from one materialisation", rules_rdb.rule_count),
        ("R-PANIC-FILE", "lengths and counts read from the file reach arithmetic/indexing only when bounded", rules_panic.make_taint_rule({"file"}, rules_panic.PANIC_KINDS, "file panic sinks")),
        ("R-ALLOC-FILE", "the loader never allocates according to a length field of the file without a bound", rules_panic.make_taint_rule({"file"}, ("alloc",), "file allocation sinks")),
        ("R-LOAD-ERR", "no read-primitive result is discarded in the loader; unknown opcodes are refused; storage results while loading are not dropped", rules_rdb.rule_load_err),
        ("R-RDB-READEXACT", "the dump reader fills its buffers with read_exact: end of file is an error, never zero bytes (a plain Read::read whose count is not examined is a finding)", rules_rdb.rule_read_exact),
    ]


def _c11():
    return [
        ("R-AOF-OPENMODE", "the function that opens the file at the log path and stores it as the writer opens it in append mode (never truncate / plain write)", rules_aof.rule_openmode),
        ("R-AOF-SET", "every dispatcher arm that can reach a dataset mutator is in the write set (AOF, replication, auto-save share it); every write-set name has an arm", rules_aof.rule_set),
        ("R-AOF-PATH", "every mutator call site reachable from the event loop lies under process_normal_command's append hook, which is gated by is_write_command and precedes the dispatch", rules_aof.rule_path),
        ("R-AOF-ONCE", "a function that appends to the AOF itself does not also run the command through process_normal_command (whose hook appends it again): every effect is represented once", rules_aof.rule_once),
        ("R-AOF-DB", "the appended record determines the database", rules_aof.rule_db),
        ("R-AOF-RAND", "no command with a random outcome is appended verbatim", rules_aof.rule_rand),
        ("R-AOF-FLUSH", "every path from the serialisation of the frame to a normal return of append_command passes a flush of the buffered writer", rules_aof.rule_flush_all_paths),
        ("R-AOF-FRAME", "append_command serialises exactly one Array frame of the command parts and flushes under every fsync policy", rules_aof.rule_frame),
        ("R-AOF-REOPEN", "a function that puts another file at the log path (a rewrite that can succeed) re-opens the writer before returning: the file appended to is the file at the log path", rules_aof.rule_reopen),
        ("R-AOF-APPENDED-RUNS", "after the append hook no gate (bool test other than the command-name comparisons) refuses with an error reply built in process_normal_command without a handler having run: what is logged is dispatched", rules_aof.rule_appended_runs),
    ]


def _c12():
    return [
        ("R-LUA-CACHE-KEEP", "entries leave the script cache only in functions that do not also store a script (the flush path): no eviction on the load path", rules_lua.rule_cache_keep),
        ("R-LUA-SANDBOX", "os, io, debug, package, require, dofile, loadfile, load are nulled in every Lua context that runs scripts", rules_lua.rule_sandbox),
        ("R-LUA-BLOCK", "connection, blocking, transaction, pub/sub, scripting and process commands are refused by the script front end, and nothing the executor implements escapes the block list", rules_lua.rule_block),
        ("R-PARITY", "every catalogue command dispatched by the server is implemented by the script-side executor with the same effect class and storage primitive", rules_lua.rule_parity),
        ("R-LUA-SHA", "EVALSHA executes the cached source unmodified through the EVAL entry with the caller's database", rules_lua.rule_sha),
        ("R-DB-HANDOVER", "every hand-over of a parsed command to the script-side executor carries the caller's database (db_override set to Some(non-constant), or a connection context on the receiver): a script command never falls back to database 0", rules_db.rule_db_handover),
        ("R-COUNT-STOP", "a range bound computed as `count - 1` is dominated by a comparison of the count with 0 or 1 (count 0 must not become stop -1 = `to the end`)", rules_cmd.rule_count_stop),
        ("R-DB", "scripts act on the connection's database (see C18)", rules_db.rule_db),
        ("R-BIN", "KEYS/ARGV/arguments/replies cross the Lua boundary without lossy or UTF-8-only conversions", rules_lua.rule_bin_script),
        ("R-LUA-PCALL", "every error the shared redis.call/redis.pcall body can return to the VM is raised by the helper that branches on is_pcall (error-origin analysis)", rules_lua.rule_pcall),
        ("R-LUA-CONV", "the RESP->Lua and Lua->RESP conversion functions agree, cell by cell, with the standard conversion table; array elements are stored at their own index", rules_lua.rule_conv),
        ("R-LUA-ATOMIC", "nothing reachable from EVAL re-enters the event loop", rules_tx.rule_tx_atomic(lambda ctx: ["storage::commands::lua::handle_eval_with_db"], "EVAL")),
        ("R-ATOMIC", "script-side command implementations refuse before they mutate", rules_cmd.rule_atomic("C12")),
    ]


def _c13():
    return [
        ("R-BLK-POP", "on the wake path an element is popped only under a still-Blocked test of the connection, every Some continuation delivers it, and a failed delivery pushes it back", rules_block.rule_pop),
        ("R-BLK-STRAND", "a woken client that finds the list empty is registered again", rules_block.rule_strand),
        ("R-BLK-UNREG", "the waiter handed a wake-up loses all its registrations under the same registry lock; expired clients are removed from every key queue", rules_block.rule_unreg),
        ("R-BLK-NOTIFY", "every dispatcher arm that can grow a list notifies blocked clients, once per pushed element", rules_block.rule_notify),
        ("R-BLK-REGPAIR", "blocked_on_key / blocked_keys are updated together; registration and Blocked state are set together", rules_block.rule_regpair),
        ("R-DISC-SIB", "both connection-removal sites perform the same clean-up set (blocking, pub/sub, monitor)", rules_block.rule_disc_sib),
        ("R-BLK-TIMEOUTS", "the timeout pass scans every registry on every call; it may skip the scan only under a cached deadline all of whose writes are derived from the blocked clients' deadlines (no reset that forgets later deadlines)", rules_block.rule_timeout_scan),
        ("R-BLK-FOREVER", "behind BLPOP/BRPOP every Duration built from the parsed timeout is reachable only through a non-zero test of that number (every spelling of zero means no deadline; path-sensitive)", rules_block.rule_forever),
        ("R-BLK-PIPELINE", "the loop executing the frames of one read stops (defers the rest) once a frame has left the connection blocked: nothing pipelined behind a blocking pop runs while the client is blocked", rules_block.rule_pipeline),
        ("R-BLK-TIMEOUT-REPLY", "the nil reply of the timeout pass is sent only under a still-Blocked test of the connection (one reply per timed-out command, however many keys it named)", rules_block.rule_timeout_reply),
        ("R-BLK-EXPIRE-ALL", "the expiry function decides which queue entries to take out by the deadline alone, never under a membership test on connection ids (all registrations of a timed-out client leave in the same pass)", rules_block.rule_expire_all),
        ("R-BLK-EOF", "blocked connections are not excluded from reading (disconnect detection)", rules_block.rule_eof),
        ("R-BLK-UNREGALL", "unregistering a client removes every entry it has in a key's queue (retain, or a removal inside a loop that searches again)", rules_block.rule_unreg_all),
        ("R-BLK-FIFO", "a key's waiter queue is appended at the back, served from the front and otherwise edited only by order-preserving operations", rules_block.rule_fifo),
    ]


def _c14():
    return [
        ("R-PS-SUBSCRIBED", "a bool function of the subscription manager that looks into a connection's record consults both its channel set and its pattern set (or neither)", rules_pubsub.rule_subscribed),
        ("R-PS-PAIR", "per-connection subscription sets and the global channel/pattern maps are updated together with the same connection id; emptied sets and SubscriberInfo are removed; unsubscribe_all sweeps both maps", rules_pubsub.rule_pair),
        ("R-PS-COUNT", "the acknowledged count is channels.len()+patterns.len() of the connection's entry taken after the update", rules_pubsub.rule_count),
        ("R-PS-REPLYCOUNT", "PUBLISH replies with the length of the receiver list it then delivers to", rules_pubsub.rule_replycount),
        ("R-PS-DEDUP", "receivers are collected once per matching subscription (not de-duplicated by connection); pattern receivers only under a match test", rules_pubsub.rule_dedup),
        ("R-PS-CLOSE", "every connection observed Closing is queued for removal", rules_pubsub.rule_close),
        ("R-DISC-SIB", "both connection-removal sites drop pub/sub, blocking and monitor registrations", rules_block.rule_disc_sib),
        ("R-PS-LABEL", "every pmessage frame is built inside the receiver loop from the current receiver's own pattern, not cached across receivers", rules_pubsub.rule_label),
        ("R-PS-BYTES", "channel / pattern / payload bytes reach the subscription manager and the message formatters unaltered (no lossy or UTF-8-only decoding, case mapping, cutting on the interprocedural value flow)", rules_pubsub.rule_bytes),
        ("R-PS-ENTRYDROP", "a channel / pattern entry of the global maps is dropped only when its subscriber set is empty (retain closures answer `drop` only under is_empty(); removes happen under, or take keys collected under, that test)", rules_pubsub.rule_entrydrop),
        ("R-PS-ACKSENT", "a (P)(UN)SUBSCRIBE handler that returns NoResponse has sent at least one frame: its result loop runs (names required by an arity test) or the empty result has a reply of its own", rules_pubsub.rule_acksent),
        ("R-PS-RECORD", "a connection's subscription record is dropped only under `channels.is_empty() && patterns.is_empty()` (or after sweeping both global maps)", rules_pubsub.rule_record),
    ]


def _c15():
    return [
        ("R-RDB-STREAM-STATE", "every dump-writer function that reads a stream's entries also reads its last ID (the high-water mark and the existence of an emptied stream survive a restart)", rules_stream.rule_rdb_stream_state),
        ("R-ST-FIELDS", "a stream entry holds its field-value pairs in a container that keeps every pair in the order given (not a map keyed by the field name)", rules_stream.rule_st_fields),
        ("R-XREAD-COUNT", "a loop reading several streams hands each stream the caller's COUNT itself (no running budget) and ends only by exhaustion of the stream list or with an error", rules_stream.rule_xread_count),
        ("R-DISPATCH", "every stream command named by the property has a dispatcher arm with the right effect class and Stream primitive", rules_cmd.make_dispatch_rule("C15")),
        ("R-BYTES-ENGINE", "every bytes-only argument (key, value, member, field, field map) the command layer hands to the storage engine carries the client's bytes: no lossy / UTF-8-only decoding, case mapping, cutting or sorting on its value flow inside the handler", rules_cmd.make_bytes_engine_rule("C15")),
        ("R-ST-GUARD", "an explicit-ID append is dominated by the `id > last_id` test; the refusal edge has no effect", rules_stream.rule_guard),
        ("R-ST-LASTID", "only additions write the last-ID state (field and atomics), both views move together; trim/delete never write it", rules_stream.rule_lastid),
        ("R-ST-PAIR", "every change of the entry vector has the matching length-counter update in the same function", rules_stream.rule_st_pair),
        ("R-ATOMIC", "refused stream commands change nothing", rules_cmd.rule_atomic("C15")),
        ("R-ST-AMOUNT", "the amount subtracted from the XLEN counter is tied to the entries really removed (per-removal counter, len() difference or the drain bound)", rules_stream.rule_st_amount),
        ("R-ST-KEEPKEY", "adding to, deleting from or trimming a stream never removes its key (the last-ID state lives in the value)", rules_stream.rule_keepkey),
        ("R-ST-IDPARSE", "the stream-ID parser accumulates with checked arithmetic (no wrapping of out-of-range IDs)", rules_stream.rule_idparse),
        ("R-ST-EXHAUST", "XADD * on an existing stream is guarded by a last-ID == max-ID refusal", rules_stream.rule_exhaust),
        ("R-ST-RANGE-END", "the inclusive end position of a stream range read is never a saturating decrement of a search insertion point (insertion point 0 = no entry, not entry 0)", rules_stream.rule_st_range_end),
        ("R-SORTED-SEARCH", "a sequence that some function looks up by binary search is kept sorted by every function that grows it (order test of the element, insert at the searched position, or a sort on every path)", rules_order.rule_sorted_search(("storage::stream::", "storage::consumer_groups::"))),
        ("R-SEQ-WHOLE", "a reader of a ring buffer's as_slices() uses both halves (or makes the deque contiguous first): range reads see every present entry", rules_order.rule_whole_view(("storage::",))),
        ("R-PANIC", "stream-ID arithmetic on client-chosen IDs (incl. IDs read back from the stream's atomics) is bounded or checked", rules_panic.make_taint_rule({"client"}, ("arith",), "stream id arithmetic", scope_prefix=("storage::stream::", "storage::consumer_groups::"))),
    ]


def _c16():
    return [
        ("R-DISPATCH", "XGROUP/XREADGROUP/XACK/XCLAIM/XPENDING have dispatcher arms reaching the engine", rules_cmd.make_dispatch_rule("C16")),
        ("R-CG-PAIR", "the two pending indexes are updated together; consumer pending_count and total_pending move with the PEL", rules_stream.rule_cg_pair),
        ("R-CG-ACK1", "XACK counts an entry only on the Some edge of its removal from the PEL", rules_stream.rule_cg_ack1),
        ("R-CG-CURSOR", "a delivery advances the group cursor on both sides of the NOACK test", rules_stream.rule_cg_cursor),
        ("R-CG-START", "the start position given at creation initialises the delivery cursor", rules_stream.rule_cg_start),
        ("R-ATOMIC", "group administration refused for a bad argument has no effect (no refusal after a mutation)", rules_cmd.rule_atomic("C16")),
        ("R-CG-ATOMIC", "refused group administration has no effect on the group objects: no Err result after a state mutation in storage::consumer_groups, no error reply after a state-mutating call in the handlers", rules_stream.rule_cg_atomic),
        ("R-CG-SETID", "the position XGROUP SETID stores is the ID the client named: no min / max / clamp against the stream on its value flow", rules_stream.rule_cg_setid),
        ("R-CG-CURSOR-READ", "the delivery cursor is consulted only where entries are delivered or the cursor is administered: XACK / XCLAIM / XPENDING are decided by the pending list alone", rules_stream.rule_cg_cursor_readers),
        ("R-CG-IDLE", "idle times (claim thresholds, XPENDING idle column) are computed from last_delivery, never from delivered_at", rules_stream.rule_cg_idle),
        ("R-SORTED-SEARCH", "a sequence that some function looks up by binary search is kept sorted by every function that grows it (order test of the element, insert at the searched position, or a sort on every path)", rules_order.rule_sorted_search(("storage::stream::", "storage::consumer_groups::"))),
        ("R-CG-BOUNDS", "XPENDING's cached ID bounds are derived from the pending index (recomputed, min/max with the old bound, or stored under a comparison), and every index mutation updates them on every path", rules_stream.rule_cg_bounds),
    ]


def _c17():
    return [
        ("R-AUTH-GATE", "every privileged call on the frame path is dominated by the pass edge of the authentication gate (in process_frame by dominance and non-reachability from the refuse edge; outside it nothing privileged runs per frame)", rules_auth.rule_gate),
        ("R-AUTH-SET", "ConnectionState::Authenticated is stored only at accept without password, after a full password equality in AUTH (for the calling connection), or when leaving Blocked", rules_auth.rule_set),
        ("R-AUTH-FAIL", "the failed-AUTH edge performs no state-changing call", rules_auth.rule_fail),
        ("R-AUTH-PWSRC", "the configured password reaches the field the gate and AUTH compare against exactly as written: no case mapping, lossy decoding, replacement or cutting on the (interprocedural) data flow into a password field", rules_auth.rule_pwsrc),
        ("R-AUTH-ARG", "the password the client supplied reaches the comparison strictly decoded or as bytes: no lossy decoding, case mapping, trimming or cutting on its value flow", rules_auth.rule_auth_arg),
        ("R-AUTH-FAILCLOSED", "when the configuration file cannot be loaded no server start is reachable on the error edge (the password in it is not silently replaced by the password-less defaults)", rules_auth.rule_config_failclosed),
    ]


def _c06():
    return [
        ("R-RETRY-BUDGET", "a loop on the command thread that sleeps between retries never sets its attempt counter back inside the loop", rules_panic.rule_retry_budget),
        ("R-UTF8-UNCHECKED", "from_utf8_unchecked on the command path never takes bytes that arrive from outside (frames, parameters, read buffers)", rules_panic.rule_utf8_unchecked),
        ("R-PANIC", "client- and wire-controlled numbers reach panicking arithmetic, indexing, float->Duration and clock arithmetic only when bounded on every path (taint with direction-aware dominating comparisons)", rules_panic.make_taint_rule({"client", "wire"}, rules_panic.PANIC_KINDS, "client+wire panic sinks")),
        ("R-ALLOC", "memory is reserved according to a client- or wire-controlled number only when bounded by what was received / is present", rules_panic.make_taint_rule({"client", "wire"}, ("alloc",), "client+wire allocation sinks")),
        ("R-RECURSE", "client-driven recursion (RESP parser) carries a bounded depth", rules_panic.rule_recurse),
        ("R-DEADLINE-BOUND", "stored deadlines are at most a constant away from now: every Instant + Duration in the modules that own deadlines bounds the Duration by a constant first (the dump writers and TTL replies rely on it)", rules_panic.rule_deadline_bound),
        ("R-HANG", "the command thread never sleeps for a client-controlled time; scripts run under an execution bound", rules_panic.make_taint_rule({"client", "wire"}, ("sleep",), "client-controlled sleeps")),
        ("R-LOOPBOUND", "no loop on the command thread runs for a client-controlled number of iterations without an upper bound (a dominating comparison, min/clamp with what is present)", rules_panic.make_taint_rule({"client", "wire"}, ("loop",), "client-controlled loop bounds")),
        ("R-HANG-LUA", "before the chunk is run, eval installs an instruction hook whose callback can return Err, decided by a clock or counter", rules_panic.rule_hang),
        ("R-LUA-REPLY-BUDGET", "every loop of the Lua -> RESP conversion that reads the Lua state has an exit decided by an element budget shared by the whole conversion (depth alone does not bound a graph-shaped value; the conversion runs outside the script time limit)", rules_lua.rule_reply_budget),
        ("R-LOCK-L1", "no lock is re-acquired (directly or through a call) while a guard of the same lock is held", rules_panic.rule_lock_l1),
        ("R-ERRPROP", "a handler error never kills the connection (C05)", rules_conn.rule_errprop),
        ("R-RUN-FATAL", "the only errors that can propagate through `?` up to Server::run (whose Err ends the process) originate at the listening socket, never in storage, handlers, parsing or per-connection I/O (interprocedural error-origin analysis)", rules_panic.rule_run_fatal),
    ]


def _c07():
    return [
        ("R-TX-QUEUE", "in process_frame every effectful call outside the five control commands is dominated by the in_transaction/should_queue_command test and not reachable from its queued edge", rules_tx.rule_queue),
        ("R-TX-NOREFUSE", "inside MULTI no command is refused on a path that skips the queue step (every error reply built after the connection-state read is dominated by the queue test, or is a control command's or the authentication gate's)", rules_tx.rule_norefuse),
        ("R-TX-REFUSE-PURE", "a refused transaction-control command (nested MULTI, WATCH inside MULTI, DISCARD without MULTI) writes nothing to the connection's transaction state before its error reply", rules_tx.rule_tx_refuse_pure),
        ("R-TX-ORDER", "the queue is only appended at the back and consumed front to back; EXEC's loop pushes exactly one result per command (Ok and Err) and has no early exit", rules_tx.rule_order),
        ("R-TX-RESET", "every exit of EXEC after the in_transaction test passes a reset (in_transaction=false, queue taken/cleared, watched keys cleared), the reset precedes execution; DISCARD/UNWATCH clear on all paths", rules_tx.rule_reset),
        ("R-TX-ATOMIC", "nothing reachable from EXEC re-enters the event loop or blocks the command thread", rules_tx.rule_tx_atomic(lambda ctx: [SERVER + "handle_exec"], "EXEC")),
        ("R-TX-CONN", "re-dispatched queued commands receive the executing connection's id, not a constant", rules_tx.rule_tx_conn),
        ("R-TXNORESP", "nothing reachable from EXEC can yield NoResponse or register a blocked client", rules_conn.rule_txnoresp),
        ("R-DB-EXEC", "EXEC reads the connection's database anew before every queued command: a queued SELECT (in any spelling the dispatcher accepts) governs the commands queued behind it, so the outcome is that of the commands run in order", rules_db.rule_exec_db),
    ]


def _c08():
    return [
        ("R-WATCH-W1", "every dataset mutation site in the storage engine has a mark_modified of the same key (by provenance) in the same function", rules_tx.rule_w1),
        ("R-WATCH-W2", "was_modified_since compares the stamp with the baseline and consults is_expired(); register_watch announces the watcher before reading the stamp; the bump writes the stamp", rules_tx.rule_w2),
        ("R-WATCH-W3", "the watched-key check dominates execution in EXEC and its abort edges (modified / error) execute nothing; EXEC, DISCARD, UNWATCH clear the watch set", rules_tx.rule_w3),
        ("R-TX-RESET", "see C07: EXEC/DISCARD/UNWATCH forget all watched keys on every path", rules_tx.rule_reset),
        ("R-WATCH-W4", "modification stamps are never forgotten or reused: nothing removes entries of the shared per-key stamp map, every stamp written is a fresh value of the global counter, which only moves forward", rules_tx.rule_w4),
        ("R-WATCH-DB", "the check at EXEC and the unregistration at UNWATCH use the database stored with the watched key, not the connection's current selection", rules_tx.rule_watch_db),
        ("R-WATCH-REWATCH", "WATCH of an already watched key keeps the first baseline (no overwriting insert into the watch set)", rules_tx.rule_rewatch),
    ]


def _c18():
    return [
        ("R-DB", "at every call of a database-taking function on the command path the database operand is never a constant, a function with a database parameter passes it on, and a callee never re-derives a database its caller already determined", rules_db.rule_db),
        ("R-DB-SELECT", "the connection's selected database is stored only under a dominating index < database_count() test", rules_db.rule_select),
        ("R-LUA-CTX-FRESH", "the Lua state a chunk runs in is built in the same invocation on every path (redis.call captures the caller's database index when the state is built)", rules_panic.rule_lua_ctx_fresh),
        ("R-TX-CONN", "queued commands are re-dispatched with the executing connection's identity (SELECT inside MULTI)", rules_tx.rule_tx_conn),
        ("R-DB-EXEC", "in EXEC's loop the database of each queued command is read from the connection earlier in the same iteration (a queued SELECT governs the commands behind it)", rules_db.rule_exec_db),
        ("R-DB-WAKE", "the wake path of a blocking pop uses the database recorded in the wake-up request (where the client blocked), never the connection's current selection", rules_db.rule_wake_db),
        ("R-DB-HANDOVER", "a function that takes its database from a field of a struct it is handed (the executor: cmd.db_override, default 0) is called only with that field set to Some(non-constant) by the caller", rules_db.rule_db_handover),
    ]


def _c03():
    return [
        ("R-RANGE-START", "no `start < 0` test (after counting from the end) sends a range command to its empty answer: a negative start means the first element", rules_coll.rule_range_start("C03")),
        ("R-SRAND-REPEAT", "the loop drawing SRANDMEMBER's with-repetition picks runs a number of times that does not depend on the set's cardinality", rules_coll.rule_srand_repeat),
        ("R-ARG-ORDER", "the command layer does not re-order (sort / reverse / dedup) pairs or list elements it collected from the command's frames before applying them", rules_cmd.make_arg_order_rule("C03")),
        ("R-DISPATCH", "every list/set/hash command named by the property has a dispatcher arm reaching the engine with the right effect class and storage primitive (e.g. LPUSH must reach a front insertion, RPOP a back removal)", rules_cmd.make_dispatch_rule("C03")),
        ("R-BYTES-ENGINE", "every bytes-only argument (key, value, member, field, field map) the command layer hands to the storage engine carries the client's bytes: no lossy / UTF-8-only decoding, case mapping, cutting or sorting on its value flow inside the handler", rules_cmd.make_bytes_engine_rule("C03")),
        ("R-ATOMIC", "no validation refusal reachable after a dataset mutation (handlers and engine methods of these commands)", rules_cmd.rule_atomic("C03")),
        ("R-EMPTY", "every engine method that shrinks a collection has a reachable emptiness test followed by removal of the key", rules_cmd.rule_empty),
        ("R-INT-CANON", "HINCRBY reads the stored field through the canonical integer parser (std parse over the whole i64 range + round trip)", rules_int.make_int_canon("C03")),
        ("R-SETALG-MISSING", "in the operand loops of SUNION/SDIFF/SINTER a later key that does not exist is the empty set: union and difference go on with the next key, the intersection ends empty", rules_coll.rule_setalg_missing),
        ("R-REMOVE-ITER", "a loop that removes at an ascending index does not advance the index in the iteration that removed (adjacent matches would be skipped: LREM)", rules_coll.rule_remove_iter),
        ("R-IDX-SINGLE", "behind LINDEX / LSET the index of the element access has no clamping / wrapping step on its value flow unless a comparison of the index against the length dominates the access (out-of-range is refused, not moved to the nearest element)", rules_coll.rule_idx_single),
        ("R-RANGE-STOP", "index ranges: the stop index is never clamped from below (a stop below -len is the empty range) and a rank-range read is dominated by a start-versus-length test in both directions", rules_coll.rule_range_stop("C03")),
        ("R-HASH-LASTWINS", "HSET / HMSET overwrite an occupied field entry too (no vacant-only insertion through the entry API: the last value named for a field wins)", rules_coll.rule_hash_lastwins),
    ]


def _c19():
    return [
        ("R-DISPATCH", "SCAN/HSCAN/SSCAN/ZSCAN have read-only dispatcher arms reaching the engine", rules_cmd.make_dispatch_rule("C19")),
        ("R-SCAN-FILTER", "every element added to a scan result is under a successful MATCH test or under `no pattern`; expired keys and keys of another TYPE never enter SCAN's candidate list", rules_scan.rule_filter),
        ("R-SCAN-ORDER", "every indexing of the rebuilt list by a cursor-derived position is dominated by a sort of that list, or happens only with cursor 0", rules_scan.rule_order),
        ("R-SCAN-CURSOR", "the continuation cursor is not a position in a list rebuilt from the live collection on every call (necessary for completeness under deletions)", rules_scan.rule_cursor),
        ("R-SCAN-TERM", "cursor 0 is returned on reaching the end; the position never decreases", rules_scan.rule_term),
    ]


def _c20():
    return [
        ("R-PARSE-AGG-INCOMPLETE", "in the aggregate parsers every `incomplete` exit is decided by a sub-parser's own answer, never by an estimate from the announced element count", rules_conn.rule_agg_incomplete),
        ("R-CODEC-STDINT", "the parser's integer frames come from the std i64 parser (whole range incl. i64::MIN) and no parser function accumulates decimal digits itself", rules_conn.rule_codec_stdint),
        ("R-PANIC", "declared lengths from the wire reach arithmetic and slicing only when bounded", rules_panic.make_taint_rule({"wire"}, rules_panic.PANIC_KINDS, "wire panic sinks")),
        ("R-ALLOC", "the parser never reserves memory according to a declared length it has not received", rules_panic.make_taint_rule({"wire"}, ("alloc",), "wire allocation sinks")),
        ("R-RECURSE", "nested aggregates are parsed under a depth limit", rules_panic.rule_recurse),
        ("R-CODEC-TABLE", "the type byte the serializer writes for each variant is the byte for which the parser builds that variant; unknown bytes are errors; null forms mirrored; no unwrap on the parse path", rules_conn.rule_codec_table),
        ("R-CODEC-POS", "the incremental parser advances its position only on the Ok(Some) edge (restart-from-frame-start, the mechanism behind chunking independence)", rules_conn.rule_codec_pos),
        ("R-CODEC-INLINE", "an inline (non-RESP) form the incremental parser recognises by a fixed-length comparison has a prefix test answering `incomplete` for a partial arrival (chunking independence)", rules_conn.rule_codec_inline),
        ("R-CRLF", "line-framed variants cannot be broken by payload bytes", rules_conn.rule_crlf),
        ("R-CODEC-DECBUF", "a stack buffer that a digit loop fills with a 64-bit integer's decimal form has at least 20 bytes", rules_conn.rule_codec_decbuf),
        ("R-CODEC-SHORTTEST", "a non-panicking content test on an open-ended sub-slice of the input whose negative outcome leads to a protocol error is dominated by a length test covering the bytes examined (no error decided from bytes that have not arrived)", rules_conn.rule_codec_shorttest),
        ("R-CODEC-INCOMPLETE", "an aggregate parser answers `need more data` only when a sub-parser did, or from a per-element length estimate of at most 3 bytes (the shortest RESP element)", rules_conn.rule_codec_incomplete),
    ]


REGISTRY = {
    "C01": _c01,
    "C02": _c02,
    "C03": _c03,
    "C04": _c04,
    "C05": _c05,
    "C06": _c06,
    "C07": _c07,
    "C08": _c08,
    "C09": _c09,
    "C10": _c10,
    "C11": _c11,
    "C12": _c12,
    "C13": _c13,
    "C14": _c14,
    "C15": _c15,
    "C16": _c16,
    "C17": _c17,
    "C19": _c19,
    "C20": _c20,
    "C18": _c18,
}


# what each check decides / does not decide (goes into MANIFEST.json)
CLAIMS = {
    "C01": {"decided": "Static rules over MIR, all call sites/paths: every string/key command named in the property has a dispatcher arm reaching the engine with the effect class (read-only vs mutating) and storage primitive its reference semantics need; no validation refusal is reachable after a dataset mutation in any handler or engine method (failure atomicity); stored integers are read through the std i64 parser plus a round trip (canonical decimal form, whole i64 range) by the INCR family. In-place modifying commands put a fresh StoredValue (no TTL) into the key space only where the key has no live entry (path-sensitive). Engine methods behind commands whose success always writes (APPEND, INCR family, LPUSH/RPUSH, XADD) reach an Ok result only through a mutation. Every bytes-only argument the command layer hands to the storage engine carries the client's bytes (no lossy / UTF-8-only decoding, case mapping or cutting on its value flow in the handler). The vector KEYS returns is filled only under the glob matcher (no answer built from the pattern itself). The command layer does not re-order (key, value) pairs collected from the command before applying them. A start index still below 0 after counting from the end is never answered with the empty result (GETRANGE).",
            "not_decided": "that each reply value and resulting dataset equal the Redis reference (index arithmetic, NX/XX truth tables, glob semantics)."},
    "C02": {"decided": "Lazy expiry: every shard-map lookup in an engine method flows into is_expired(); the sweeper deletes only under a re-check of the stored deadline in the same lock scope; the deadline is written only by dedicated setters called from dedicated TTL functions; inserts store a fresh StoredValue or (RENAME) the removed one; expiry index updated with the deadline. TTL survives in-place modifications (fresh StoredValue only where the key has no live entry); only the sweeper reads the expiry index; dump deadlines use a clock read in the same invocation; per-record loader state never leaks into the next record. RENAME moves the entry as a whole (never writes `.value` of an entry already in the map). A key whose collection a command empties is removed with its metadata (R-EMPTY): a re-created key cannot inherit the old deadline. A stored entry moved to another key (RENAME) gets its expiry-index entry under the new key.",
            "not_decided": "real-time exactness of Instant comparisons, TTL reply rounding, sweeper scheduling."},
    "C03": {"decided": "Every list/set/hash command has a dispatcher arm with the right effect class and the storage primitive its semantics need (LPUSH front insertion, RPOP back removal, ...); failure atomicity (no refusal after a mutation) in handlers and engine methods; every shrinking engine method has an emptiness test followed by removal of the key; HINCRBY reads stored integers canonically; no loop removes at an ascending index and advances it in the same iteration (adjacent matches skipped). A missing later key is the empty set in SUNION/SDIFF (skipped) and SINTER (empty result). Behind LINDEX / LSET the index of the element access carries no clamping or wrapping step on its value flow unless a comparison of the index against the length dominates the access. Index ranges never clamp the stop index from below (a stop below -len is the empty range); bytes-only engine arguments carry the client's bytes. HSET / HMSET overwrite an occupied field entry too (no vacant-only insertion). The command layer does not re-order pairs / list elements collected from the command before applying them. SRANDMEMBER's with-repetition loop does not depend on the cardinality; a negative resolved start of LRANGE / LTRIM is never answered empty.",
            "not_decided": "order/index arithmetic, LREM direction and count, set algebra results, random-pick distribution."},
    "C04": {"decided": "No score reaches SkipList::insert without a dominating NaN refusal of that value; refused multi-member ZADD adds nothing; key index, node links and length stay in step (pairing, re-score unlinks before linking, who-writes length); removing the last member removes the key; dispatcher arms with the right skip-list primitive; both comparators are the lexicographic (score, member) order with arguments in order; the three search loops agree (full comparator, advance on Less only); no in-place overwrite of a linked node's ordering key under a tie-admitting bare score comparison; every path after the index update links a node. An engine method that writes scores returns success only after handing the score to SkipList::insert (or after an exact == showed nothing changes). Each ZADD front end tests every parsed score for NaN itself, before the first engine call. Score-range answers come from a call that received both bounds (or sit behind exact tests of both); no score-range call gets the finite extremes f64::MIN / f64::MAX as a bound; rank ranges are dominated by a start-versus-length test in both directions and never clamp the stop from below; member bytes reach the engine unaltered. A range bound computed as `count - 1` is dominated by a comparison of that value with 0 or 1. The command layer does not re-order the (score, member) pairs it collected from the command before writing them. A negative resolved start of ZRANGE / ZREVRANGE is never answered empty.",
            "not_decided": "correctness of the tower pointer surgery, comparator totality on -0/inf, agreement of rank and range queries (need execution or a proof of the data structure)."},
    "C05": {"decided": "Error discipline and reply counting of the connection loop on all CFG paths: an Err from executing a frame is converted to an error reply unless Connection/Io; exactly one reply push per loop iteration and no mid-batch exit; protocol errors are queued/answered and the connection closed; line-framed reply payloads pass a CR/LF filter; nothing reachable from EXEC yields NoResponse; the loop draining the parser is left only when parse_frame reports an incomplete buffer or an error (no complete command is stranded until the next read). The parser loop drains complete frames; no protocol error is decided from bytes that have not arrived (length guard must cover what a non-panicking content test looks at); Io-class errors cannot leave a command handler. Once Connection::read has fed the parser it returns `data available` (no error / `nothing read` exit after a feed, path-sensitive). Every write to the non-blocking client socket is a partial write of write_buffer[write_offset..] whose returned count is added to write_offset (no write_all / write!). An inline form recognised by a fixed-length comparison has a prefix test answering `incomplete` for a partial arrival. The timeout pass sends its nil reply only under a still-Blocked test (one reply per timed-out command). A (P)(UN)SUBSCRIBE handler that answers NoResponse has sent at least one frame on every path (the empty result has a reply of its own). In the aggregate parsers every `incomplete` exit is the None of a sub-parser (no size estimate from the announced count).",
            "not_decided": "TCP segmentation independence of the whole I/O state machine, reply order under partial writes."},
    "C06": {"decided": "Interprocedural, type-restricted taint from client/wire numbers (str::parse, RespFrame::Integer) to panicking arithmetic (MIR overflow/neg/div/bounds asserts), indexing/slicing APIs, allocation sizes, float->Duration and clock arithmetic, with bounds derived by abstract interpretation over dominating comparisons, min/max/clamp and casts; bounded parser recursion; no client-timed sleep; script execution bound; lock re-entrancy; stream IDs (hand-written parser) and numbers read back from the stream's atomics are sources too; interprocedural error-origin analysis: only listener errors can propagate through `?` to Server::run (whose Err ends the process). Stored deadlines are bounded by a constant (the dump writers' unchecked clock arithmetic relies on it); no error reaches Server::run from storage/handlers; all client-driven recursion is depth-bounded. No closure run under a lock-holding higher-order function re-acquires that lock (also through generic-bound trait calls); no client-controlled iteration count without a bound or a data-dependent break. Every loop of the Lua -> RESP reply conversion that reads the Lua state has an exit decided by an element budget shared by the whole conversion. from_utf8_unchecked on the command path never takes bytes from outside; a loop that sleeps between retries never sets its attempt counter back.",
            "not_decided": "index / slice arithmetic on positions derived from the length of the data being scanned (seeded change C06-glob-class-at-pattern-end-slices-past-the-end is recorded as not detected: the taint domain is numbers from the client / wire / file); absence of all panics (only input-tainted ones), memory exhaustion by legitimately large data, liveness under slow peers; bounds are hi/lo abstractions, not exact ranges."},
    "C07": {"decided": "Queue gate dominance in process_frame, FIFO-only use of the queue, one result per queued command with no early exit, transaction-state reset on every exit of EXEC/DISCARD (and before execution), no event-loop re-entry from EXEC, identity of the connection handed to re-dispatched commands. No command is refused inside MULTI on a path that skips the queue step; re-dispatch happens with the executing connection; the EXEC-without-MULTI arm is the only exit that needs no reset. A refused transaction-control command writes nothing to the transaction state before its error reply. EXEC re-reads the connection's database before every queued command (a queued SELECT in any spelling governs what follows). Only MULTI / EXEC / DISCARD / WATCH act at once inside a transaction (UNWATCH acts at once only outside one).",
            "not_decided": "isolation against non-command threads (sweeper, replica apply); equality of each queued command's reply with its stand-alone reply."},
    "C08": {"decided": "Every dataset mutation site in the storage engine (incl. expiry purges) has a mark_modified of the same key (provenance) in the same function; was_modified_since compares the stamp and consults expiry; register_watch order; the abort test dominates execution and abort edges execute nothing; EXEC/DISCARD/UNWATCH clear the watch set on all paths. The check at EXEC and the unregistration at UNWATCH take the database from the watch record itself; WATCH of an already watched key keeps the first baseline.",
            "not_decided": "no-false-abort for hash collisions; timing of expiry vs EXEC."},
    "C09": {"decided": "Writer/reader table agreement in rdb.rs: variant->opcode->constructed variant is the identity (both writers); length-class bounds, tags, masks, shifts and byte order consistent with the decoder; per-variant sequence of primitive writes equals the sequence of reads (loop nesting included); count = len() of the iterated collection; no in-band type decision; records with expiry never loaded persistent; database selector flow. Dataset text parsed as a number by the snapshot writer replaces the text only under a round trip; every reader function dispatching on the type byte consumes what the writer emits; per-record loader state is reset on every successful exit of its consumer. The record loader returns successfully only after handing the record's TTL to a storage call, or where the TTL is known to be None. No score-range call used by the writers gets the finite extremes f64::MIN / f64::MAX as a bound. Every dump writer that reads a stream's entries also reads its last ID (known finding: neither does).",
            "not_decided": "equality of the loaded dataset for every dataset (needs execution), TTL clock granularity, consumer groups (not persisted)."},
    "C10": {"decided": "save() writes only a temp path and renames on the success continuation after a successful flush; single-writer guard held across the write; BGSAVE flag cleared on every exit incl. unwind; value+TTL of a key from one engine call and shared collections materialised once; no read result dropped in the loader, unknown opcodes refused; file-tainted lengths never reach unbounded allocation/arithmetic. Dump deadlines use a clock read in the invocation that read the key's TTL. The temp dump is opened create+truncate (never create_new / append), so the leftover of a failed save does not block or corrupt the next one. The dump reader's primitives use read_exact, or examine the count of a plain read (end of file is an error).",
            "not_decided": "crash-point atomicity below the file-system API (fsync), exact interleavings with commands beyond the single-acquisition clause."},
    "C11": {"decided": "Write-set agreement: every dispatcher arm that can reach a dataset mutator is in is_write_command; every mutator call site reachable from the event loop lies under the append hook (gated, before dispatch); record carries the database; no random-outcome command appended verbatim; exactly one Array frame per command, flushed under every fsync policy. The hook rule is path-sensitive (flags, helpers): every mutating arm is entered only after the append, or under `not a write command` / `AOF off`; every Ok path of append_command passes a flush. A function that appends to the AOF itself does not also run the command through the dispatcher hook (represented once). A function that puts another file at the log path (a rewrite whose source it creates) re-opens the writer before it returns successfully. After the append hook no gate other than the command-name comparisons refuses without a handler having run (what is logged is dispatched). The log at the log path is opened in append mode by the function that stores it as the writer.",
            "not_decided": "that replay reproduces the dataset (the built-in replay is a stub); ordering between append and effect under failure."},
    "C12": {"decided": "Sandbox list, blocked-command list (and nothing the executor implements escapes it), sibling-dispatcher parity (presence, effect class, storage primitive per catalogue command), EVALSHA = EVAL entry with caller's db and unmodified source, byte-safety of the Lua boundary, no event-loop re-entry from EVAL, failure atomicity of script-side commands; the two conversion functions agree cell by cell with the standard RESP<->Lua conversion table and array elements keep their index. The table->array conversion ends at the first nil; array replies are stored at their own index; every error of the shared call/pcall body is raised by the helper that branches on is_pcall. The two implementations of every catalogue command reach the same set of leaf engine methods. Every hand-over of a parsed command to the script-side executor carries the caller's database. Script-side range reads with a `count - 1` bound exclude count 0 first. Entries leave the script cache only on the flush path (no eviction where a script is stored).",
            "not_decided": "reply equality after RESP->Lua conversion for every command and argument (two independent implementations; needs a differential run)."},
    "C13": {"decided": "Wake path pops only under a still-Blocked test, delivers on the Some edge and pushes back on failed delivery; an empty pop re-registers the client; a woken waiter loses all registrations under the registry lock; every list-growing arm notifies once per element; registry indexes and connection state updated together; both removal sites clean up; blocked connections polled. The decision to notify may depend on `something was pushed` (count > 0) only, never on the list's length; waiter queues keep FIFO order (no swap removal); unregistering removes every entry of the client. The timeout pass scans every registry on every call, or skips only under a cached deadline all of whose writes derive from the blocked clients' deadlines. Every Duration built from the parsed BLPOP/BRPOP timeout is reachable only through a non-zero test of that number (path-sensitive). After the wake-path pop every way out (also its error edge) answers the client or registers it again -- in the place its arrival time gives it, and after looking at its other keys; the loop executing the frames of one read stops once a frame left the connection blocked (known finding: it does not). The timeout pass answers a client once (reply under the still-Blocked test). The expiry function decides which queue entries to take out by the deadline alone (no membership test on ids controls a selection / removal): all registrations of a timed-out client leave in the same pass.",
            "not_decided": "FIFO service order, promptness, timeout accuracy, multiset conservation over whole histories."},
    "C14": {"decided": "Per-connection sets and global maps updated together with the same connection id, emptied entries removed; acknowledged count = channels.len()+patterns.len() after the update; PUBLISH replies with the length of the list it delivers to; no per-connection de-duplication; pattern receivers only under a match test; closing connections always removed with full clean-up; a connection's subscription record is dropped only when both its channel and pattern sets are empty. Channel, pattern and payload bytes reach the subscription manager and the message formatters with no lossy / UTF-8-only decoding, case mapping, cutting or sorting on their interprocedural value flow. A channel / pattern entry is dropped from the global maps only when its subscriber set is empty. Every (P)(UN)SUBSCRIBE is acknowledged: the handlers, which send their replies themselves, send at least one frame on every path (nothing to unsubscribe from is answered with the nil-name acknowledgement). A bool function of the manager on a connection id consults both the channel and the pattern set, or neither.",
            "not_decided": "per-publisher order across connections, glob semantics of patterns (the matcher's backtracking algorithm is value-level: seeded change C14-glob-backtrack-pruning is recorded as not detected)."},
    "C15": {"decided": "Explicit-ID append dominated by the id > last_id test (refusal edge effect-free); only additions write the last-ID state (field and atomics together), trim/delete never; every entry-vector change has the matching length-counter update; dispatcher arms and failure atomicity; stream-mutating engine methods never remove the key (last-ID state survives emptying); the ID parser accumulates with checked arithmetic; XADD * is refused at the top of the ID space; ID arithmetic on client-chosen IDs is checked. Sequences looked up by binary search are kept sorted by every function that grows them; a ring buffer's readers see both slices; the XLEN counter moves by the number of entries really removed. Field names and values reach the engine as the client's bytes. The inclusive end of a range read is never a saturating decrement of a search insertion point (a range before the first entry is empty). A loop reading several streams hands each the caller's COUNT itself (no running budget) and ends only by exhaustion or with an error. A stream entry's pairs are held in an order-keeping sequence (known finding: a HashMap); every dump writer that reads a stream's entries also reads its last ID (known finding).",
            "not_decided": "range exactness (binary-search index arithmetic), auto-ID vs wall clock."},
    "C16": {"decided": "Both pending indexes updated together; consumer pending_count and total_pending move with the PEL; XACK counts only on the Some edge of removal; deliveries advance the cursor on both sides of NOACK; creation start position initialises the cursor; refused group administration has no effect. The per-consumer index and every other binary-searched sequence stay sorted under every insertion; idle times count from last_delivery; cached XPENDING bounds are derived from the index. The delivery cursor is read only where entries are delivered or the cursor is administered (XACK/XCLAIM/XPENDING are decided by the pending list alone). No Err result after a state mutation inside the group objects and no error reply after a state-mutating call in the handlers (refused administration and refused XREADGROUP leave groups, cursors and pending lists as they were). The position XGROUP SETID stores is the ID the client named (no clamping on its value flow). XACK's count is tied to the Some result of a single-entry removal from the pending list (found by what it does).",
            "not_decided": "exactly-once delivery across consumers over histories, XPENDING bounds values, XCLAIM idle-time semantics."},
    "C17": {"decided": "Every privileged call on the per-frame path is dominated by the pass edge of the authentication gate and unreachable from its refuse edge; nothing privileged runs per frame outside process_frame; Authenticated is stored only in three justified contexts (full password equality, per connection); failed AUTH has no side effect. Gate and Authenticated-store rules are path-sensitive (boolean flags, helpers, verdicts computed inside with_connection closures); the configured password reaches the compared field unaltered (no case mapping / lossy step on the interprocedural flow). When the configuration file cannot be loaded no server start is reachable on the error edge. The password the client supplied reaches the comparison strictly decoded or as bytes (no lossy step).",
            "not_decided": "timing side channels of the password comparison."},
    "C18": {"decided": "Database-index flow (inferred through parameters, struct fields and closure captures from the engine's db position): no constant database at any use on the command path, a function's own database parameter is passed on, a callee never re-derives a database its caller already resolved; SELECT's store is bounded by database_count(). EXEC re-reads the database in every iteration (loop or driven closure); the wake path of a blocking pop uses the database recorded in the wake-up request, never the connection's current selection. A function that takes its database from a field of a struct it is handed is called only with that field set by the caller. The Lua state a script runs in is built in the same invocation on every path (redis.call captures the caller's database index when the state is built).",
            "not_decided": "aliasing of key spaces inside the engine (databases[db] indexing is by construction)."},
    "C19": {"decided": "Every element added to a scan result lies under a successful MATCH test or under `no pattern`; expired keys and other-TYPE keys never enter SCAN's candidates; necessary condition of completeness under deletion (cursor must not be a position in a list rebuilt per call); cursor 0 at the end, monotone position. The filter rule is path-sensitive (flag variables, helpers, Option::map_or closures, iterator-chain filters); the rebuilt list is sorted on every path before a cursor indexes it. A zero cursor reaches a return only through a `position >= length` test (path-sensitive).",
            "not_decided": "completeness for a stable cursor design (iteration order of the table), COUNT as a hint, duplicates."},
    "C20": {"decided": "Wire-tainted lengths never reach unbounded allocation, arithmetic or slicing; bounded nesting depth; serializer type byte <-> parser-built variant tables are inverse, unknown bytes are errors, null forms mirrored, no unwrap on the parse path; position advances only on Ok(Some); line-framed payloads CR/LF-filtered. No protocol error from a non-panicking content test whose bytes may not have arrived; aggregate parsers answer `incomplete` only from sub-parsers or a <=3-byte estimate; decimal buffers hold 20 bytes. Inline forms have a partial-arrival answer (chunking independence). Integer frames come from the std i64 parser and no parser function accumulates decimal digits itself; aggregate `incomplete` exits are sub-parser answers.",
            "not_decided": "round-trip equality and chunking independence as values (e.g. the inline PING special case, Double formatting)."},
}
NOT_APPLICABLE = {}
