"""Property -> rule list. Each rule: (id, text, function(ctx, report))."""
import rules_cmd, rules_expire, rules_conn, rules_auth


def rules_for(pid):
    return REGISTRY[pid]()


def _c01():
    return [
        ("R-DISPATCH", "every command named by the property has a dispatcher arm that reaches the storage engine, with the effect class (read-only / mutating) and the storage primitive its reference semantics need",
         rules_cmd.make_dispatch_rule("C01")),
        ("R-ATOMIC", "no validation refusal is reachable after a dataset mutation (handlers: after the success continuation of a mutating engine call; engine methods: after a DATA-MUT site)",
         rules_cmd.rule_atomic("C01")),
    ]


def _c02():
    return [
        ("R-DISPATCH", "EXPIRE/PEXPIRE/PERSIST/TTL/PTTL have arms with the right effect class and primitive", rules_cmd.make_dispatch_rule("C02")),
        ("R-EXPIRE-X1", "every lookup of the shard map in a storage-engine method flows into is_expired() (lazy expiry independent of the sweeper)", rules_expire.rule_x1()),
        ("R-EXPIRE-X2", "the sweeper removes a key only under a dominating is_expired() test of the stored value, inside the same write-lock scope", rules_expire.rule_x2),
        ("R-EXPIRE-X3", "deadline written only by the ValueMetadata setters; TTL setters are called only from dedicated TTL functions; every insert stores a fresh StoredValue or (RENAME) the one it removed", rules_expire.rule_x3),
        ("R-EXPIRE-X4", "a function that stores/clears a deadline also updates the expiry index", rules_expire.rule_x4),
    ]


def _c05():
    return [
        ("R-ERRPROP", "an Err from executing a frame never leaves the connection loop except for Connection/Io errors: it is converted into an error reply", rules_conn.rule_errprop),
        ("R-REPLY1", "each iteration of the frame loop pushes exactly one reply; the loop is not left mid-batch", rules_conn.rule_reply1),
        ("R-PARSEERR", "a protocol error from parse_frame is queued/sent as an error reply on every path (no silent break)", rules_conn.rule_parseerr),
        ("R-PARSEERR-CLOSE", "the consumer of queued protocol errors pushes an error reply and requests the connection to be closed", rules_conn.rule_parseerr_close),
        ("R-CRLF", "line-framed reply variants write payload bytes only through a CR/LF-inspecting function; bulk strings write len() of the slice they write", rules_conn.rule_crlf),
        ("R-TXNORESP", "nothing reachable from EXEC can yield NoResponse or register a blocked client", rules_conn.rule_txnoresp),
    ]


def _c17():
    return [
        ("R-AUTH-GATE", "every privileged call on the frame path is dominated by the pass edge of the authentication gate (in process_frame by dominance and non-reachability from the refuse edge; outside it nothing privileged runs per frame)", rules_auth.rule_gate),
        ("R-AUTH-SET", "ConnectionState::Authenticated is stored only at accept without password, after a full password equality in AUTH (for the calling connection), or when leaving Blocked", rules_auth.rule_set),
        ("R-AUTH-FAIL", "the failed-AUTH edge performs no state-changing call", rules_auth.rule_fail),
    ]


REGISTRY = {
    "C01": _c01,
    "C02": _c02,
    "C05": _c05,
    "C17": _c17,
}
