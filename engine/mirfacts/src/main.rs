// mirfacts: rustc_private driver that dumps MIR facts (one JSON object per body) for the
// local crates of iGentAI/ferrous (and the verif fixtures crate).  It is injected with
// RUSTC_WORKSPACE_WRAPPER under `cargo +nightly check`; the deciding rules live in
// ../rules (python).  One write per process (lib, bin, lua_cli are separate processes).
#![feature(rustc_private)]
extern crate rustc_abi;
extern crate rustc_driver;
extern crate rustc_hir;
extern crate rustc_interface;
extern crate rustc_middle;
extern crate rustc_span;

use rustc_driver::Compilation;
use rustc_hir::def::DefKind;
use rustc_middle::mir::PlaceTy;
use rustc_middle::mir::*;
use rustc_middle::ty::{self, Instance, Ty, TyCtxt, TypingEnv};
use std::fmt::Write as _;
use std::io::Write;

fn esc(s: &str) -> String {
    let mut o = String::with_capacity(s.len() + 2);
    o.push('"');
    for c in s.chars() {
        match c {
            '"' => o.push_str("\\\""),
            '\\' => o.push_str("\\\\"),
            '\n' => o.push_str("\\n"),
            '\r' => o.push_str("\\r"),
            '\t' => o.push_str("\\t"),
            c if (c as u32) < 0x20 => {
                let _ = write!(o, "\\u{:04x}", c as u32);
            }
            c => o.push(c),
        }
    }
    o.push('"');
    o
}

struct Cx<'a, 'tcx> {
    tcx: TyCtxt<'tcx>,
    body: &'a Body<'tcx>,
    tenv: TypingEnv<'tcx>,
}

impl<'a, 'tcx> Cx<'a, 'tcx> {
    fn line(&self, sp: rustc_span::Span) -> usize {
        // use the outermost call site so that macro-expanded code is attributed to the
        // line in the crate source
        let sp = sp.source_callsite();
        self.tcx.sess.source_map().lookup_char_pos(sp.lo()).line
    }
    fn place(&self, p: &Place<'tcx>) -> String {
        let mut s = format!("{{\"l\":{},\"p\":[", p.local.as_usize());
        let mut pty = PlaceTy::from_ty(self.body.local_decls[p.local].ty);
        let mut first = true;
        for elem in p.projection.iter() {
            if !first {
                s.push(',');
            }
            first = false;
            match elem {
                ProjectionElem::Deref => s.push_str("\"*\""),
                ProjectionElem::Field(f, _) => {
                    let mut name = format!("{}", f.as_usize());
                    if let ty::Adt(adt, _) = pty.ty.kind() {
                        let v = pty.variant_index.unwrap_or(rustc_abi::FIRST_VARIANT);
                        if (v.as_usize()) < adt.variants().len() {
                            let vd = adt.variant(v);
                            if f.as_usize() < vd.fields.len() {
                                name = format!(
                                    "{}.{}",
                                    self.tcx.def_path_str(adt.did()),
                                    vd.fields[f].name
                                );
                            }
                        }
                    }
                    s.push_str(&format!("{{\"f\":{}}}", esc(&name)));
                }
                ProjectionElem::Downcast(name, vi) => {
                    let n = name
                        .map(|x| x.to_string())
                        .unwrap_or(format!("{}", vi.as_usize()));
                    s.push_str(&format!("{{\"v\":{},\"vi\":{}}}", esc(&n), vi.as_usize()));
                }
                ProjectionElem::Index(l) => s.push_str(&format!("{{\"ix\":{}}}", l.as_usize())),
                ProjectionElem::ConstantIndex { offset, from_end, .. } => {
                    s.push_str(&format!("{{\"cix\":{},\"fe\":{}}}", offset, from_end))
                }
                ProjectionElem::Subslice { from, to, from_end } => {
                    s.push_str(&format!("{{\"sub\":[{},{},{}]}}", from, to, from_end))
                }
                _ => s.push_str("\"?\""),
            }
            pty = pty.projection_ty(self.tcx, elem);
        }
        s.push_str("]}");
        s
    }
    fn operand(&self, o: &Operand<'tcx>) -> String {
        match o {
            Operand::Copy(p) => format!("{{\"cp\":{}}}", self.place(p)),
            Operand::Move(p) => format!("{{\"mv\":{}}}", self.place(p)),
            Operand::Constant(c) => {
                let ty = c.const_.ty();
                let mut extra = String::new();
                if let ty::FnDef(did, args) = ty.kind() {
                    extra = format!(
                        ",\"fn\":{}",
                        esc(&self.tcx.def_path_str_with_args(*did, args))
                    );
                }
                // evaluate scalar integer constants (named discriminants, assoc consts)
                if ty.is_integral() || ty.is_bool() || ty.is_char() {
                    if let Some(si) = c.const_.try_eval_scalar_int(self.tcx, self.tenv) {
                        let size = si.size();
                        let v: String = if ty.is_signed() {
                            format!("{}", si.to_int(size))
                        } else {
                            format!("{}", si.to_uint(size))
                        };
                        extra.push_str(&format!(",\"v\":{}", esc(&v)));
                    }
                }
                // contents of a constant table of strings (`const NAMES: &[&str] = &[..]`)
                if let Some(items) = self.str_table(c) {
                    let js: Vec<String> = items.iter().map(|x| esc(x)).collect();
                    extra.push_str(&format!(",\"strs\":[{}]", js.join(",")));
                }
                format!(
                    "{{\"c\":{},\"ty\":{}{}}}",
                    esc(&format!("{}", c.const_)),
                    esc(&format!("{}", ty)),
                    extra
                )
            }
            #[allow(unreachable_patterns)]
            _ => "{\"c\":\"?\"}".to_string(),
        }
    }
    /// the strings of a constant of type `&[&str]` / `&[&str; N]`, read from its allocation
    fn str_table(&self, c: &ConstOperand<'tcx>) -> Option<Vec<String>> {
        let ty = c.const_.ty();
        let inner = match ty.kind() {
            ty::Ref(_, t, _) => *t,
            _ => return None,
        };
        let (elem, fixed) = match inner.kind() {
            ty::Slice(e) => (*e, None),
            ty::Array(e, n) => (*e, n.try_to_target_usize(self.tcx)),
            _ => return None,
        };
        match elem.kind() {
            ty::Ref(_, t, _) if t.is_str() => {}
            _ => return None,
        }
        let val = c.const_.eval(self.tcx, self.tenv, c.span).ok()?;
        let (alloc_id, base, n) = match val {
            ConstValue::Slice { alloc_id, meta } => (alloc_id, 0u64, meta),
            ConstValue::Scalar(rustc_middle::mir::interpret::Scalar::Ptr(ptr, _)) => {
                let (prov, off) = ptr.into_raw_parts();
                (prov.alloc_id(), off.bytes(), fixed?)
            }
            // any other wide pointer is stored behind one more indirection: (ptr, len)
            ConstValue::Indirect { alloc_id, offset } => {
                let a = match self.tcx.global_alloc(alloc_id) {
                    rustc_middle::mir::interpret::GlobalAlloc::Memory(a) => a.inner(),
                    _ => return None,
                };
                let off = offset.bytes();
                if (off + 16) as usize > a.len() {
                    return None;
                }
                let prov = a.provenance().ptrs().get(&offset)?;
                let raw = a.inspect_with_uninit_and_ptr_outside_interpreter(off as usize..(off + 16) as usize);
                let addr = u64::from_le_bytes(raw[0..8].try_into().ok()?);
                let len = match fixed {
                    Some(k) => k,
                    None => u64::from_le_bytes(raw[8..16].try_into().ok()?),
                };
                (prov.alloc_id(), addr, len)
            }
            _ => return None,
        };
        if n > 4096 {
            return None;
        }
        let alloc = match self.tcx.global_alloc(alloc_id) {
            rustc_middle::mir::interpret::GlobalAlloc::Memory(a) => a.inner(),
            _ => return None,
        };
        let ps = self.tcx.data_layout.pointer_size().bytes();
        if ps != 8 {
            return None;
        }
        let mut out = Vec::new();
        for i in 0..n {
            let off = base + i * 2 * ps;
            let prov = alloc.provenance().ptrs().get(&rustc_abi::Size::from_bytes(off))?;
            let raw = alloc.inspect_with_uninit_and_ptr_outside_interpreter(off as usize..(off + 2 * ps) as usize);
            let addr = u64::from_le_bytes(raw[0..8].try_into().ok()?);
            let len = u64::from_le_bytes(raw[8..16].try_into().ok()?);
            let tgt = match self.tcx.global_alloc(prov.alloc_id()) {
                rustc_middle::mir::interpret::GlobalAlloc::Memory(a) => a.inner(),
                _ => return None,
            };
            if (addr + len) as usize > tgt.len() {
                return None;
            }
            let sb = tgt.inspect_with_uninit_and_ptr_outside_interpreter(addr as usize..(addr + len) as usize);
            out.push(String::from_utf8_lossy(sb).into_owned());
        }
        Some(out)
    }
    fn closures_in(&self, ty: Ty<'tcx>, out: &mut Vec<String>) {
        for arg in ty.walk() {
            if let Some(t) = arg.as_type() {
                if let ty::Closure(did, _) = t.kind() {
                    out.push(self.tcx.def_path_str(*did));
                }
            }
        }
    }
    fn rvalue(&self, rv: &Rvalue<'tcx>) -> String {
        match rv {
            Rvalue::Use(o, _) => format!("{{\"k\":\"use\",\"o\":{}}}", self.operand(o)),
            Rvalue::Ref(_, bk, p) => format!(
                "{{\"k\":\"ref\",\"m\":{},\"p\":{}}}",
                matches!(bk, BorrowKind::Mut { .. }),
                self.place(p)
            ),
            Rvalue::RawPtr(_, p) => format!("{{\"k\":\"rawptr\",\"p\":{}}}", self.place(p)),
            Rvalue::Cast(ck, o, ty) => format!(
                "{{\"k\":\"cast\",\"ck\":{},\"o\":{},\"ty\":{},\"from\":{}}}",
                esc(&format!("{:?}", ck)),
                self.operand(o),
                esc(&format!("{}", ty)),
                esc(&format!("{}", o.ty(&self.body.local_decls, self.tcx)))
            ),
            Rvalue::BinaryOp(op, ab) => format!(
                "{{\"k\":\"bin\",\"op\":{},\"a\":{},\"b\":{},\"ty\":{}}}",
                esc(&format!("{:?}", op)),
                self.operand(&ab.0),
                self.operand(&ab.1),
                esc(&format!("{}", ab.0.ty(&self.body.local_decls, self.tcx)))
            ),
            Rvalue::UnaryOp(op, o) => format!(
                "{{\"k\":\"un\",\"op\":{},\"o\":{}}}",
                esc(&format!("{:?}", op)),
                self.operand(o)
            ),
            Rvalue::Discriminant(p) => format!("{{\"k\":\"discr\",\"p\":{}}}", self.place(p)),
            Rvalue::Aggregate(kind, ops) => {
                let kd = match &**kind {
                    AggregateKind::Adt(did, vi, _, _, _) => {
                        let adt = self.tcx.adt_def(*did);
                        format!("{}::{}", self.tcx.def_path_str(*did), adt.variant(*vi).name)
                    }
                    AggregateKind::Closure(did, _) => {
                        format!("closure:{}", self.tcx.def_path_str(*did))
                    }
                    AggregateKind::Tuple => "tuple".to_string(),
                    AggregateKind::Array(_) => "array".to_string(),
                    _ => "other".to_string(),
                };
                let mut fields = String::new();
                if let AggregateKind::Adt(did, vi, _, _, _) = &**kind {
                    let adt = self.tcx.adt_def(*did);
                    let names: Vec<String> = adt
                        .variant(*vi)
                        .fields
                        .iter()
                        .map(|f| esc(&f.name.to_string()))
                        .collect();
                    fields = format!(",\"fs\":[{}]", names.join(","));
                }
                let os: Vec<String> = ops.iter().map(|o| self.operand(o)).collect();
                format!(
                    "{{\"k\":\"agg\",\"a\":{},\"o\":[{}]{}}}",
                    esc(&kd),
                    os.join(","),
                    fields
                )
            }
            Rvalue::Repeat(o, n) => format!(
                "{{\"k\":\"repeat\",\"o\":{},\"n\":{}}}",
                self.operand(o),
                esc(&format!("{}", n))
            ),
            Rvalue::CopyForDeref(p) => {
                format!("{{\"k\":\"use\",\"o\":{{\"cp\":{}}}}}", self.place(p))
            }
            other => format!(
                "{{\"k\":\"other\",\"d\":{}}}",
                esc(&format!("{:?}", other).chars().take(120).collect::<String>())
            ),
        }
    }
}

struct Cb;
impl rustc_driver::Callbacks for Cb {
    fn after_analysis<'tcx>(
        &mut self,
        _c: &rustc_interface::interface::Compiler,
        tcx: TyCtxt<'tcx>,
    ) -> Compilation {
        let krate = tcx.crate_name(rustc_hir::def_id::LOCAL_CRATE).to_string();
        let out = match std::env::var("MIRFACTS_OUT") {
            Ok(o) => o,
            Err(_) => return Compilation::Continue,
        };
        let want = std::env::var("MIRFACTS_CRATES").unwrap_or("ferrous,lua_cli".into());
        if !want.split(',').any(|w| w == krate) {
            return Compilation::Continue;
        }
        let is_bin = tcx.entry_fn(()).is_some();
        let is_test = tcx.sess.is_test_crate();
        let mut s = String::new();
        let mut nbody = 0;
        // ---- header: ADT tables (local ADTs + a few std enums) -------------------------
        let mut adts = String::new();
        let mut first_adt = true;
        for ldid in tcx.hir_crate_items(()).definitions() {
            let did = ldid.to_def_id();
            let kind = tcx.def_kind(did);
            if !matches!(kind, DefKind::Struct | DefKind::Enum) {
                continue;
            }
            let adt = tcx.adt_def(did);
            if !first_adt {
                adts.push(',');
            }
            first_adt = false;
            let _ = write!(
                adts,
                "{{\"name\":{},\"enum\":{},\"variants\":[",
                esc(&tcx.def_path_str(did)),
                adt.is_enum()
            );
            let mut fv = true;
            for (vi, v) in adt.variants().iter_enumerated() {
                if !fv {
                    adts.push(',');
                }
                fv = false;
                let discr = if adt.is_enum() {
                    format!("{}", adt.discriminant_for_variant(tcx, vi).val)
                } else {
                    "0".to_string()
                };
                let fs: Vec<String> = v
                    .fields
                    .iter()
                    .map(|f| {
                        format!(
                            "[{},{}]",
                            esc(&f.name.to_string()),
                            esc(&format!(
                                "{}",
                                tcx.type_of(f.did).instantiate_identity().skip_norm_wip()
                            ))
                        )
                    })
                    .collect();
                let _ = write!(
                    adts,
                    "{{\"n\":{},\"i\":{},\"d\":{},\"f\":[{}]}}",
                    esc(&v.name.to_string()),
                    vi.as_usize(),
                    esc(&discr),
                    fs.join(",")
                );
            }
            adts.push_str("]}");
        }
        // ---- impls: trait impl table for dyn-call expansion and Drop impls ---------------
        let mut impls = String::new();
        let mut first_impl = true;
        for ldid in tcx.hir_crate_items(()).definitions() {
            let did = ldid.to_def_id();
            if !matches!(tcx.def_kind(did), DefKind::Impl { of_trait: true }) {
                continue;
            }
            let tr = tcx.impl_trait_ref(did).instantiate_identity().skip_norm_wip();
            let self_ty = tcx.type_of(did).instantiate_identity().skip_norm_wip();
            let methods: Vec<String> = tcx
                .associated_items(did)
                .in_definition_order()
                .filter(|a| matches!(a.kind, ty::AssocKind::Fn { .. }))
                .map(|a| esc(&tcx.def_path_str(a.def_id)))
                .collect();
            if !first_impl {
                impls.push(',');
            }
            first_impl = false;
            let _ = write!(
                impls,
                "{{\"trait\":{},\"self\":{},\"methods\":[{}]}}",
                esc(&tcx.def_path_str(tr.def_id)),
                esc(&format!("{}", self_ty)),
                methods.join(",")
            );
        }
        let _ = write!(
            s,
            "{{\"header\":true,\"crate\":{},\"bin\":{},\"test\":{},\"adts\":[{}],\"impls\":[{}]}}\n",
            esc(&krate),
            is_bin,
            is_test,
            adts,
            impls
        );
        // ---- bodies ----------------------------------------------------------------------
        for ldid in tcx.mir_keys(()) {
            let did = ldid.to_def_id();
            let kind = tcx.def_kind(did);
            if !matches!(kind, DefKind::Fn | DefKind::AssocFn | DefKind::Closure) {
                continue;
            }
            let body = tcx.optimized_mir(did);
            nbody += 1;
            let cx = Cx { tcx, body, tenv: TypingEnv::post_analysis(tcx, did) };
            let sm = tcx.sess.source_map();
            let lo = sm.lookup_char_pos(body.span.lo());
            let file = format!("{}", lo.file.name.prefer_local_unconditionally());
            let vis = if matches!(kind, DefKind::Fn | DefKind::AssocFn) {
                if tcx.visibility(did).is_public() { "pub" } else { "priv" }
            } else {
                "closure"
            };
            let mut parent_ty = String::new();
            let mut trait_of = String::new();
            if matches!(kind, DefKind::AssocFn) {
                let p = tcx.parent(did);
                if let DefKind::Impl { of_trait } = tcx.def_kind(p) {
                    parent_ty =
                        format!("{}", tcx.type_of(p).instantiate_identity().skip_norm_wip());
                    if of_trait {
                        let tr = tcx.impl_trait_ref(p).instantiate_identity().skip_norm_wip();
                        trait_of = tcx.def_path_str(tr.def_id);
                    }
                }
            }
            let encl = if matches!(kind, DefKind::Closure) {
                tcx.def_path_str(tcx.typeck_root_def_id(did))
            } else {
                String::new()
            };
            let in_test = {
                // bodies under a #[cfg(test)] module do not exist in non-test builds; keep flag
                // for the path so python can filter `::tests::`
                false
            };
            let _ = in_test;
            let _ = write!(
                s,
                "{{\"fn\":{},\"file\":{},\"line\":{},\"nargs\":{},\"vis\":{},\"self_ty\":{},\"trait\":{},\"encl\":{},\"kind\":{},",
                esc(&tcx.def_path_str(did)),
                esc(&file),
                lo.line,
                body.arg_count,
                esc(vis),
                esc(&parent_ty),
                esc(&trait_of),
                esc(&encl),
                esc(&format!("{:?}", kind))
            );
            // locals
            s.push_str("\"locals\":[");
            for (i, d) in body.local_decls.iter().enumerate() {
                if i > 0 {
                    s.push(',');
                }
                s.push_str(&esc(&format!("{}", d.ty)));
            }
            s.push_str("],\"names\":{");
            let mut first = true;
            for vdi in &body.var_debug_info {
                if let VarDebugInfoContents::Place(p) = &vdi.value {
                    if p.projection.is_empty() {
                        if !first {
                            s.push(',');
                        }
                        first = false;
                        let _ = write!(s, "\"{}\":{}", p.local.as_usize(), esc(&vdi.name.to_string()));
                    }
                }
            }
            // upvar names for closures: var_debug_info entries with projections from _1
            s.push_str("},\"upvars\":[");
            let mut first = true;
            for vdi in &body.var_debug_info {
                if let VarDebugInfoContents::Place(p) = &vdi.value {
                    if !p.projection.is_empty() && p.local.as_usize() == 1 {
                        if !first {
                            s.push(',');
                        }
                        first = false;
                        let _ = write!(s, "[{},{}]", esc(&vdi.name.to_string()), cx.place(p));
                    }
                }
            }
            s.push_str("],\"bbs\":[");
            for (bbi, data) in body.basic_blocks.iter_enumerated() {
                if bbi.as_usize() > 0 {
                    s.push(',');
                }
                let _ = write!(s, "{{\"cleanup\":{},\"s\":[", data.is_cleanup);
                let mut fs = true;
                for st in &data.statements {
                    let ln = cx.line(st.source_info.span);
                    let js = match &st.kind {
                        StatementKind::Assign(b) => Some(format!(
                            "{{\"k\":\"=\",\"l\":{},\"r\":{},\"line\":{}}}",
                            cx.place(&b.0),
                            cx.rvalue(&b.1),
                            ln
                        )),
                        StatementKind::SetDiscriminant { place, variant_index } => Some(format!(
                            "{{\"k\":\"setd\",\"l\":{},\"v\":{},\"line\":{}}}",
                            cx.place(place),
                            variant_index.as_usize(),
                            ln
                        )),
                        StatementKind::StorageDead(l) => {
                            Some(format!("{{\"k\":\"dead\",\"l\":{}}}", l.as_usize()))
                        }
                        StatementKind::StorageLive(l) => {
                            Some(format!("{{\"k\":\"live\",\"l\":{}}}", l.as_usize()))
                        }
                        _ => None,
                    };
                    if let Some(js) = js {
                        if !fs {
                            s.push(',');
                        }
                        fs = false;
                        s.push_str(&js);
                    }
                }
                s.push_str("],\"t\":");
                let term = data.terminator();
                let line = cx.line(term.source_info.span);
                let exp = term.source_info.span.from_expansion();
                match &term.kind {
                    TerminatorKind::Goto { target } => {
                        let _ = write!(s, "{{\"k\":\"goto\",\"t\":{}}}", target.as_usize());
                    }
                    TerminatorKind::SwitchInt { discr, targets } => {
                        let ts: Vec<String> = targets
                            .iter()
                            .map(|(v, b)| format!("[{},{}]", v, b.as_usize()))
                            .collect();
                        let _ = write!(
                            s,
                            "{{\"k\":\"switch\",\"d\":{},\"dty\":{},\"ts\":[{}],\"o\":{},\"line\":{}}}",
                            cx.operand(discr),
                            esc(&format!("{}", discr.ty(&body.local_decls, tcx))),
                            ts.join(","),
                            targets.otherwise().as_usize(),
                            line
                        );
                    }
                    TerminatorKind::Return => {
                        let _ = write!(s, "{{\"k\":\"return\",\"line\":{}}}", line);
                    }
                    TerminatorKind::UnwindResume => s.push_str("{\"k\":\"resume\"}"),
                    TerminatorKind::Unreachable => s.push_str("{\"k\":\"unreachable\"}"),
                    TerminatorKind::Drop { place, target, unwind, .. } => {
                        let u = if let UnwindAction::Cleanup(b) = unwind {
                            b.as_usize() as i64
                        } else {
                            -1
                        };
                        let _ = write!(
                            s,
                            "{{\"k\":\"drop\",\"p\":{},\"t\":{},\"u\":{},\"line\":{}}}",
                            cx.place(place),
                            target.as_usize(),
                            u,
                            line
                        );
                    }
                    TerminatorKind::Assert { cond, expected, msg, target, unwind } => {
                        let u = if let UnwindAction::Cleanup(b) = unwind {
                            b.as_usize() as i64
                        } else {
                            -1
                        };
                        let (mk, mops): (String, Vec<String>) = match &**msg {
                            AssertKind::Overflow(op, a, b) => (
                                format!("Overflow:{:?}", op),
                                vec![cx.operand(a), cx.operand(b)],
                            ),
                            AssertKind::OverflowNeg(a) => {
                                ("OverflowNeg".into(), vec![cx.operand(a)])
                            }
                            AssertKind::DivisionByZero(a) => {
                                ("DivisionByZero".into(), vec![cx.operand(a)])
                            }
                            AssertKind::RemainderByZero(a) => {
                                ("RemainderByZero".into(), vec![cx.operand(a)])
                            }
                            AssertKind::BoundsCheck { len, index } => {
                                ("BoundsCheck".into(), vec![cx.operand(len), cx.operand(index)])
                            }
                            other => (format!("{:?}", other).chars().take(40).collect(), vec![]),
                        };
                        let _ = write!(
                            s,
                            "{{\"k\":\"assert\",\"c\":{},\"e\":{},\"m\":{},\"mo\":[{}],\"t\":{},\"u\":{},\"line\":{}}}",
                            cx.operand(cond),
                            expected,
                            esc(&mk),
                            mops.join(","),
                            target.as_usize(),
                            u,
                            line
                        );
                    }
                    TerminatorKind::Call { func, args, destination, target, unwind, .. } => {
                        let u = if let UnwindAction::Cleanup(b) = unwind {
                            b.as_usize() as i64
                        } else {
                            -1
                        };
                        let fty = func.ty(&body.local_decls, tcx);
                        let mut callee = String::new();
                        let mut resolved = String::new();
                        let mut cdef = String::new();
                        let mut virt = false;
                        let mut clos: Vec<String> = vec![];
                        let mut gargs: Vec<String> = vec![];
                        let mut fnptr = String::new();
                        if let ty::FnDef(cdid, cargs) = fty.kind() {
                            callee = tcx.def_path_str_with_args(*cdid, cargs);
                            cdef = tcx.def_path_str(*cdid);
                            for a in cargs.iter() {
                                if let Some(t) = a.as_type() {
                                    cx.closures_in(t, &mut clos);
                                    gargs.push(esc(&format!("{}", t)));
                                }
                            }
                            if let Ok(Some(inst)) =
                                Instance::try_resolve(tcx, cx.tenv, *cdid, cargs)
                            {
                                resolved = tcx.def_path_str(inst.def_id());
                                if let ty::InstanceKind::Virtual(..) = inst.def {
                                    virt = true;
                                }
                            }
                        } else {
                            callee = format!("<indirect:{}>", fty);
                            if let Some(p) = func.place() {
                                fnptr = cx.place(&p);
                            }
                        }
                        for a in args.iter() {
                            let t = a.node.ty(&body.local_decls, tcx);
                            cx.closures_in(t, &mut clos);
                        }
                        clos.sort();
                        clos.dedup();
                        let as_: Vec<String> = args.iter().map(|a| cx.operand(&a.node)).collect();
                        let cl: Vec<String> = clos.iter().map(|c| esc(c)).collect();
                        let _ = write!(
                            s,
                            "{{\"k\":\"call\",\"f\":{},\"def\":{},\"res\":{},\"virt\":{},\"clos\":[{}],\"g\":[{}],\"a\":[{}],\"d\":{},\"t\":{},\"u\":{},\"line\":{},\"exp\":{}{}}}",
                            esc(&callee),
                            esc(&cdef),
                            esc(&resolved),
                            virt,
                            cl.join(","),
                            gargs.join(","),
                            as_.join(","),
                            cx.place(destination),
                            target.map(|b| b.as_usize() as i64).unwrap_or(-1),
                            u,
                            line,
                            exp,
                            if fnptr.is_empty() { String::new() } else { format!(",\"fp\":{}", fnptr) }
                        );
                    }
                    other => {
                        let _ = write!(
                            s,
                            "{{\"k\":\"other\",\"d\":{}}}",
                            esc(&format!("{:?}", other).chars().take(60).collect::<String>())
                        );
                    }
                }
                s.push('}');
            }
            // promoted constants: the literal operands of each promoted body, in order
            s.push_str("],\"promoted\":[");
            let proms = tcx.promoted_mir(did);
            for (pi, pb) in proms.iter_enumerated() {
                if pi.as_usize() > 0 {
                    s.push(',');
                }
                s.push('[');
                let pcx = Cx { tcx, body: pb, tenv: TypingEnv::post_analysis(tcx, did) };
                let mut firstc = true;
                for data in pb.basic_blocks.iter() {
                    for st in &data.statements {
                        if let StatementKind::Assign(b) = &st.kind {
                            let mut ops: Vec<&Operand<'tcx>> = vec![];
                            match &b.1 {
                                Rvalue::Use(o, _) => ops.push(o),
                                Rvalue::Aggregate(kind, os) => {
                                    if let AggregateKind::Adt(adid, vi, _, _, _) = &**kind {
                                        let adt = tcx.adt_def(*adid);
                                        if !firstc {
                                            s.push(',');
                                        }
                                        firstc = false;
                                        let _ = write!(
                                            s,
                                            "{{\"agg\":{}}}",
                                            esc(&format!(
                                                "{}::{}",
                                                tcx.def_path_str(*adid),
                                                adt.variant(*vi).name
                                            ))
                                        );
                                    }
                                    for o in os.iter() {
                                        ops.push(o);
                                    }
                                }
                                Rvalue::Cast(_, o, _) => ops.push(o),
                                Rvalue::Repeat(o, _) => ops.push(o),
                                _ => {}
                            }
                            for o in ops {
                                if let Operand::Constant(_) = o {
                                    if !firstc {
                                        s.push(',');
                                    }
                                    firstc = false;
                                    s.push_str(&pcx.operand(o));
                                }
                            }
                        }
                    }
                }
                s.push(']');
            }
            s.push_str("]}\n");
        }
        let tag = if is_test {
            "test"
        } else if is_bin {
            "bin"
        } else {
            "lib"
        };
        let fname = format!("{}/{}.{}.jsonl", out, krate, tag);
        let tmp = format!("{}.tmp{}", fname, std::process::id());
        {
            let mut f = std::fs::File::create(&tmp).unwrap();
            f.write_all(s.as_bytes()).unwrap();
        }
        std::fs::rename(&tmp, &fname).unwrap();
        eprintln!("mirfacts: crate={} tag={} bodies={} -> {}", krate, tag, nbody, fname);
        Compilation::Continue
    }
}

fn main() {
    let mut args: Vec<String> = std::env::args().collect();
    // RUSTC_WORKSPACE_WRAPPER passes the real rustc as argv[1]
    args.remove(1);
    rustc_driver::run_compiler(&args, &mut Cb);
}
