//! Positive / negative twins for the shared analyses of /verif/engine/rules (taint bounds, result
//! continuations, string dispatch tables). Compiled by the mirfacts driver in the thorough tier;
//! `selftest.py` asserts the expected verdict for every function below. Names encode the
//! expectation: `bad_*` must be reported, `ok_*` must be silent.
#![allow(dead_code, unused_variables, clippy::all)]

// ---- taint: index --------------------------------------------------------------------------
pub fn bad_index_unbounded(s: &str, v: &[u8]) -> u8 {
    let i: usize = s.parse().unwrap();
    v[i]
}
pub fn ok_index_compared_with_len(s: &str, v: &[u8]) -> u8 {
    let i: usize = s.parse().unwrap();
    if i < v.len() { v[i] } else { 0 }
}
pub fn ok_index_early_return(s: &str, v: &[u8]) -> u8 {
    let i: usize = s.parse().unwrap();
    if i >= v.len() {
        return 0;
    }
    v[i]
}
pub fn ok_index_flag_variable(s: &str, v: &[u8]) -> u8 {
    let i: usize = s.parse().unwrap();
    let in_range = i < v.len();
    if in_range { v[i] } else { 0 }
}
pub fn bad_index_lower_bound_only(s: &str, v: &[u8]) -> u8 {
    let i: usize = s.parse().unwrap();
    if i > 3 { v[i] } else { 0 }
}
pub fn bad_index_negative_cast(s: &str, v: &[u8]) -> u8 {
    let e: isize = s.parse().unwrap();
    let idx = std::cmp::max(-1, e) as usize;
    if idx == 7 { return 1; }
    v[idx]
}
pub fn ok_index_nonneg_cast(s: &str, v: &[u8]) -> u8 {
    let e: isize = s.parse().unwrap();
    if e < 0 || e as usize >= v.len() { 0 } else { v[e as usize] }
}
pub fn bad_range_end_unbounded(s: &str, t: &str, v: &[u8]) -> usize {
    let a: usize = s.parse().unwrap();
    let b: usize = t.parse().unwrap();
    if a > b { return 0; }
    v[a..=b].len()
}
pub fn ok_range_both_bounded(s: &str, t: &str, v: &[u8]) -> usize {
    let a: usize = s.parse().unwrap();
    let b: usize = t.parse().unwrap();
    if a > b || b >= v.len() { return 0; }
    v[a..=b].len()
}

// ---- taint: allocation ---------------------------------------------------------------------
pub fn bad_alloc_declared_length(s: &str) -> Vec<u8> {
    let n: usize = s.parse().unwrap();
    Vec::with_capacity(n)
}
pub fn ok_alloc_min_received(s: &str, data: &[u8]) -> Vec<u8> {
    let n: usize = s.parse().unwrap();
    Vec::with_capacity(n.min(data.len()))
}
pub fn ok_alloc_limit(s: &str) -> Vec<u8> {
    let n: usize = s.parse().unwrap();
    if n > 4096 { return Vec::new(); }
    vec![0u8; n]
}
pub fn bad_alloc_max_is_no_bound(s: &str) -> Vec<u8> {
    let n: usize = s.parse().unwrap();
    vec![0u8; n.max(16)]
}

// ---- taint: arithmetic ---------------------------------------------------------------------
pub fn bad_neg_min(s: &str) -> i64 {
    let n: i64 = s.parse().unwrap();
    -n
}
pub fn ok_neg_checked(s: &str) -> Option<i64> {
    let n: i64 = s.parse().unwrap();
    n.checked_neg()
}
pub fn ok_neg_after_sign_test(s: &str) -> i64 {
    let n: i64 = s.parse().unwrap();
    if n < 0 { return 0; }
    -n
}
pub fn bad_add_unbounded(s: &str, base: usize) -> usize {
    let n: usize = s.parse().unwrap();
    base + n
}
pub fn ok_add_limited(s: &str) -> usize {
    let n: usize = s.parse().unwrap();
    if n > 1000 { return 0; }
    5 + n
}
pub fn ok_add_negative_to_length(s: &str, v: &[u8]) -> isize {
    let start: isize = s.parse().unwrap();
    let len = v.len() as isize;
    if start < 0 { len + start } else { start }
}
pub fn bad_signed_add(s: &str, cur: i64) -> i64 {
    let inc: i64 = s.parse().unwrap();
    cur + inc
}
pub fn ok_sub_after_comparison(s: &str, v: &[u8]) -> usize {
    let n: usize = s.parse().unwrap();
    if v.len() <= n { return 0; }
    v.len() - n
}
pub fn bad_sub_unchecked(s: &str, v: &[u8]) -> usize {
    let n: usize = s.parse().unwrap();
    v.len() - n
}
pub fn ok_widened_u32_mul(s: &str) -> u64 {
    let n: u32 = s.parse().unwrap();
    (n as u64) * 1000
}
pub fn bad_mul_unbounded(s: &str) -> usize {
    let n: usize = s.parse().unwrap();
    n * 2
}
pub fn ok_mul_checked(s: &str) -> Option<usize> {
    let n: usize = s.parse().unwrap();
    n.checked_mul(2)
}

// ---- taint: interprocedural and through struct fields -----------------------------------------
pub struct Cmd { pub offset: usize, pub name: String }
fn parse_cmd(s: &str) -> Cmd { Cmd { offset: s.parse().unwrap(), name: String::new() } }
fn use_offset(v: &[u8], off: usize) -> u8 { v[off] }
pub fn bad_field_flow(s: &str, v: &[u8]) -> u8 {
    let c = parse_cmd(s);
    v[c.offset]
}
pub fn bad_param_flow_caller(s: &str, v: &[u8]) -> u8 {
    let n: usize = s.parse().unwrap();
    use_offset(v, n)
}

// ---- clock arithmetic ------------------------------------------------------------------------
pub fn bad_deadline(s: &str) -> std::time::Instant {
    let secs: u64 = s.parse().unwrap();
    std::time::Instant::now() + std::time::Duration::from_secs(secs)
}
pub fn ok_deadline_checked(s: &str) -> Option<std::time::Instant> {
    let secs: u64 = s.parse().unwrap();
    std::time::Instant::now().checked_add(std::time::Duration::from_secs(secs))
}
pub fn bad_float_duration(s: &str) -> std::time::Duration {
    let t: f64 = s.parse().unwrap();
    if t < 0.0 { return std::time::Duration::from_secs(0); }
    std::time::Duration::from_secs_f64(t)
}
pub fn ok_float_duration_try(s: &str) -> Option<std::time::Duration> {
    let t: f64 = s.parse().unwrap();
    std::time::Duration::try_from_secs_f64(t).ok()
}

// ---- result continuations (A3) --------------------------------------------------------------
pub fn may_fail(x: u32) -> Result<u32, String> { if x > 3 { Err("big".into()) } else { Ok(x) } }
pub fn rs_question(x: u32) -> Result<u32, String> { let y = may_fail(x)?; Ok(y + 1) }
pub fn rs_match(x: u32) -> u32 { match may_fail(x) { Ok(v) => v, Err(_) => 0 } }
pub fn rs_if_let_err(x: u32) -> u32 { let r = may_fail(x); if let Err(_) = r { return 7; } 1 }
pub fn rs_is_ok(x: u32) -> u32 { let r = may_fail(x); if r.is_ok() { 1 } else { 2 } }

// ---- string dispatch (A7) --------------------------------------------------------------------
pub fn dispatch(cmd: &str) -> u32 {
    match cmd {
        "GET" => 1,
        "SET" | "PUT" => 2,
        "NOP" => 0,
        _ => 9,
    }
}
pub fn is_write(cmd: &str) -> bool {
    if cmd == "SCRIPT" { false } else { matches!(cmd, "SET" | "DEL") }
}

// ---- R-REMOVE-ITER twins (C03) ------------------------------------------------------------
pub fn rm_bad_forward_skip(list: &mut std::collections::VecDeque<Vec<u8>>, e: &[u8], mut n: usize) -> usize {
    let mut removed = 0;
    let mut i = 0;
    while i < list.len() && n > 0 {
        if list[i] == e {
            list.remove(i);
            n -= 1;
            removed += 1;
        }
        i += 1;
    }
    removed
}

pub fn rm_ok_forward_else(list: &mut std::collections::VecDeque<Vec<u8>>, e: &[u8], mut n: usize) -> usize {
    let mut removed = 0;
    let mut i = 0;
    while i < list.len() && n > 0 {
        if list[i] == e {
            list.remove(i);
            n -= 1;
            removed += 1;
        } else {
            i += 1;
        }
    }
    removed
}

pub fn rm_ok_backward(list: &mut std::collections::VecDeque<Vec<u8>>, e: &[u8], mut n: usize) -> usize {
    let mut removed = 0;
    let mut i = list.len();
    while i > 0 && n > 0 {
        i -= 1;
        if list[i] == e {
            list.remove(i);
            n -= 1;
            removed += 1;
        }
    }
    removed
}

// ---- length guards that are off by k for the index they protect (linear forms) -----------
pub fn bad_len_guard_too_short(data: &[u8], hdr: usize, s: &str) -> Option<u8> {
    let n: usize = s.parse::<usize>().ok()?.min(1000);
    let end = hdr + n;
    if data.len() < end {
        return None;
    }
    Some(data[end])
}

pub fn ok_len_guard_exact(data: &[u8], hdr: usize, s: &str) -> Option<u8> {
    let n: usize = s.parse::<usize>().ok()?.min(1000);
    let end = hdr + n;
    if data.len() < end + 2 {
        return None;
    }
    if data[end] != b'\r' || data[end + 1] != b'\n' {
        return None;
    }
    Some(data[end])
}

// ---- decimal formatting into a stack buffer (R-CODEC-DECBUF) -------------------------------
pub fn dec_bad_buffer_19(n: i64, out: &mut Vec<u8>) {
    let mut buf = [0u8; 19];
    let mut pos = buf.len();
    let mut rest = n.unsigned_abs();
    loop {
        pos -= 1;
        buf[pos] = b'0' + (rest % 10) as u8;
        rest /= 10;
        if rest == 0 {
            break;
        }
    }
    if n < 0 {
        pos -= 1;
        buf[pos] = b'-';
    }
    out.extend_from_slice(&buf[pos..]);
}

pub fn dec_ok_buffer_20(n: i64, out: &mut Vec<u8>) {
    let mut buf = [0u8; 20];
    let mut pos = buf.len();
    let mut rest = n.unsigned_abs();
    loop {
        pos -= 1;
        buf[pos] = b'0' + (rest % 10) as u8;
        rest /= 10;
        if rest == 0 {
            break;
        }
    }
    if n < 0 {
        pos -= 1;
        buf[pos] = b'-';
    }
    out.extend_from_slice(&buf[pos..]);
}

// ---------------------------------------------------------------------------------------------
// twins for the path-sensitive "only under this test" analysis (boolpath) and the rules built
// on it; module paths mirror ferrous where a rule is anchored on them
pub mod storage {
    pub mod consumer_groups {
        use std::collections::HashMap;
        use std::sync::RwLock;
        pub struct Manager { pub groups: RwLock<HashMap<String, u64>> }
        impl Manager {
            pub fn cg_bad_insert_then_err(&self, name: String, v: u64) -> Result<(), String> {
                let mut g = self.groups.write().unwrap();
                match g.insert(name, v) { Some(_) => Err("BUSYGROUP".to_string()), None => Ok(()) }
            }
            pub fn cg_ok_check_then_insert(&self, name: String, v: u64) -> Result<(), String> {
                let mut g = self.groups.write().unwrap();
                if g.contains_key(&name) { return Err("BUSYGROUP".to_string()); }
                g.insert(name, v);
                Ok(())
            }
            pub fn cg_ok_remove_none_is_err(&self, name: &str) -> Result<u64, String> {
                let mut g = self.groups.write().unwrap();
                match g.remove(name) { Some(v) => Ok(v), None => Err("NOGROUP".to_string()) }
            }
            pub fn cg_ok_local_copy_mutated(&self, name: String) -> Result<usize, String> {
                let mut copy = self.groups.read().unwrap().clone();
                copy.insert(name, 0);
                if copy.len() > 3 { return Err("too many".to_string()); }
                Ok(copy.len())
            }
        }
    }
    pub mod engine {
        pub fn pattern_matches(p: &str, t: &str) -> bool { p == t || p == "*" }

        fn accepts(pattern: Option<&str>, it: &str) -> bool {
            match pattern { Some(p) => pattern_matches(p, it), None => true }
        }
        pub fn bp_bad_flag_never_cleared(pattern: Option<&[u8]>, items: &[String]) -> Vec<Vec<u8>> {
            let pat = pattern.map(|p| String::from_utf8_lossy(p));
            let mut out = Vec::new();
            for it in items {
                let mut include = true;
                if let Some(ref p) = pat { if !pattern_matches(p, it) { include = true; } }
                if include { out.push(it.as_bytes().to_vec()); }
            }
            out
        }
        pub fn bp_ok_flag(pattern: Option<&[u8]>, items: &[String]) -> Vec<Vec<u8>> {
            let pat = pattern.map(|p| String::from_utf8_lossy(p));
            let mut out = Vec::new();
            for it in items {
                let mut include = true;
                if let Some(ref p) = pat { if !pattern_matches(p, it) { include = false; } }
                if include { out.push(it.as_bytes().to_vec()); }
            }
            out
        }
        pub fn bp_ok_helper(pattern: Option<&[u8]>, items: &[String]) -> Vec<Vec<u8>> {
            let pat = pattern.map(|p| String::from_utf8_lossy(p));
            let mut out = Vec::new();
            for it in items {
                if accepts(pat.as_deref(), it) { out.push(it.as_bytes().to_vec()); }
            }
            out
        }
        pub fn bp_ok_map_or(pattern: Option<&[u8]>, items: &[String]) -> Vec<Vec<u8>> {
            let pat = pattern.map(|p| String::from_utf8_lossy(p));
            let mut out = Vec::new();
            for it in items {
                if pat.as_deref().map_or(true, |p| pattern_matches(p, it)) { out.push(it.as_bytes().to_vec()); }
            }
            out
        }
        pub fn bp_ok_continue(pattern: Option<&[u8]>, items: &[String]) -> Vec<Vec<u8>> {
            let pat = pattern.map(|p| String::from_utf8_lossy(p));
            let mut out = Vec::new();
            for it in items {
                if let Some(ref p) = pat { if !pattern_matches(p, it) { continue; } }
                out.push(it.as_bytes().to_vec());
            }
            out
        }
        pub fn bp_bad_map_or_wrong_default(pattern: Option<&[u8]>, items: &[String]) -> Vec<Vec<u8>> {
            let pat = pattern.map(|p| String::from_utf8_lossy(p));
            let mut out = Vec::new();
            for it in items {
                if pat.as_deref().map_or(true, |p| p.len() > 0) { out.push(it.as_bytes().to_vec()); }
            }
            out
        }
        pub fn bp_bad_fast_path_forgets_pattern(pattern: Option<&[u8]>, items: &[String]) -> Vec<Vec<u8>> {
            let pat = pattern.map(|p| String::from_utf8_lossy(p));
            let mut out = Vec::new();
            if items.len() < 4 { for it in items { out.push(it.as_bytes().to_vec()); } return out; }
            for it in items {
                if let Some(ref p) = pat { if !pattern_matches(p, it) { continue; } }
                out.push(it.as_bytes().to_vec());
            }
            out
        }
    }

    pub mod rdb {
        pub struct RdbReader<R> { pub reader: R, pub pending_expiry_ms: Option<u64>, pub other_pending: Option<u64> }
        impl<R: std::io::Read> RdbReader<R> {
            pub fn set_pending(&mut self, v: u64, w: u64) { self.pending_expiry_ms = Some(v); self.other_pending = Some(w); }
            pub fn carry_bad_early_return(&mut self, kind: u8, out: &mut Vec<(u8, Option<u64>)>) -> Result<(), String> {
                let ttl = self.pending_expiry_ms;
                if kind == 9 { out.push((kind, ttl)); return Ok(()); }
                out.push((kind, ttl));
                self.pending_expiry_ms = None;
                Ok(())
            }
            pub fn carry_ok_reset_everywhere(&mut self, kind: u8, out: &mut Vec<(u8, Option<u64>)>) -> Result<(), String> {
                let ttl = self.other_pending.take();
                if kind == 9 { out.push((kind, ttl)); return Ok(()); }
                out.push((kind, ttl));
                Ok(())
            }
        }
        pub struct RdbWriter;
        impl RdbWriter {
            pub fn textnum_bad(s: &str, out: &mut Vec<u8>) {
                if let Ok(n) = s.parse::<i32>() { out.push(0xC2); out.extend_from_slice(&n.to_le_bytes()); }
                else { out.extend_from_slice(s.as_bytes()); }
            }
            pub fn textnum_ok(s: &str, out: &mut Vec<u8>) {
                if let Ok(n) = s.parse::<i32>() {
                    if n.to_string() == s { out.push(0xC2); out.extend_from_slice(&n.to_le_bytes()); return; }
                }
                out.extend_from_slice(s.as_bytes());
            }
        }
    }
}

pub mod protocol {
    pub mod resp {
        pub enum RespFrame { BulkString(Option<Vec<u8>>), Integer(i64) }
    }
    pub mod parser {
        pub fn short_bad_starts_with(data: &[u8], hdr: usize, len: usize) -> Result<Option<usize>, String> {
            let end = hdr + len;
            if data.len() < end { return Ok(None); }
            if !data[end..].starts_with(b"\r\n") { return Err("missing CRLF".to_string()); }
            Ok(Some(end + 2))
        }
        pub fn short_ok_starts_with(data: &[u8], hdr: usize, len: usize) -> Result<Option<usize>, String> {
            let end = hdr + len;
            if data.len() < end + 2 { return Ok(None); }
            if !data[end..].starts_with(b"\r\n") { return Err("missing CRLF".to_string()); }
            Ok(Some(end + 2))
        }
        pub fn short_ok_negative_is_incomplete(data: &[u8], hdr: usize) -> Result<Option<usize>, String> {
            if !data[hdr..].starts_with(b"\r\n") { return Ok(None); }
            Ok(Some(hdr + 2))
        }
    }
}

pub mod so {
    pub struct Index { pub ids: Vec<u64>, pub log: Vec<u64> }
    impl Index {
        pub fn find(&self, id: u64) -> bool { self.ids.binary_search(&id).is_ok() }
        pub fn sorted_bad_push(&mut self, id: u64) { self.ids.push(id); }
        pub fn sorted_ok_insert_at(&mut self, id: u64) { if let Err(p) = self.ids.binary_search(&id) { self.ids.insert(p, id); } }
        pub fn sorted_ok_guarded(&mut self, id: u64, last: u64) -> bool { if id <= last { return false; } self.ids.push(id); true }
        pub fn sorted_ok_sorts(&mut self, id: u64) { self.ids.push(id); self.ids.sort(); }
        pub fn sorted_ok_other_field(&mut self, id: u64) { self.log.push(id); }
    }
    pub fn seq_bad_first_slice(d: &std::collections::VecDeque<u32>, x: u32) -> bool { d.as_slices().0.binary_search(&x).is_ok() }
    pub fn seq_ok_both(d: &std::collections::VecDeque<u32>, x: u32) -> bool { let (a, b) = d.as_slices(); a.binary_search(&x).is_ok() || b.binary_search(&x).is_ok() }
    pub fn seq_ok_contiguous(d: &mut std::collections::VecDeque<u32>, x: u32) -> bool { d.make_contiguous(); d.as_slices().0.binary_search(&x).is_ok() }
}

// ---- twins for the backward value-flow module (flow.py) and the rules built on it ----------------
pub mod fl {
    pub struct Frame(pub Vec<u8>);
    impl Frame {
        pub fn as_string(&self) -> Option<String> { Some(String::from_utf8_lossy(&self.0).to_string()) }
        pub fn bytes(&self) -> &[u8] { &self.0 }
    }
    pub fn sink(names: Vec<Vec<u8>>) -> usize { names.len() }
    fn names_lossy(args: &[Frame]) -> Option<Vec<Vec<u8>>> {
        args.iter().map(|a| a.as_string().map(String::into_bytes)).collect()
    }
    pub fn fl_bad_lossy_helper_closure(args: &[Frame]) -> usize {
        match names_lossy(args) { Some(n) => sink(n), None => 0 }
    }
    pub fn fl_bad_lossy_push(args: &[Frame]) -> usize {
        let mut v = Vec::new();
        for a in args { v.push(String::from_utf8_lossy(a.bytes()).to_uppercase().into_bytes()); }
        sink(v)
    }
    pub fn fl_ok_bytes_push(args: &[Frame]) -> usize {
        let mut v = Vec::new();
        for i in 0..args.len() { v.push(args[i].bytes().to_vec()); }
        sink(v)
    }
    pub fn fl_ok_bytes_collect(args: &[Frame]) -> usize {
        sink(args.iter().map(|a| a.0.clone()).collect())
    }
    // the command NAME is upper-cased for dispatch; the argument is not on that flow
    pub fn fl_ok_other_value_altered(args: &[Frame]) -> usize {
        let name = String::from_utf8_lossy(args[0].bytes()).to_uppercase();
        if name == "X" { return 0; }
        sink(vec![args[1].bytes().to_vec()])
    }

    // single-element index: clamping on the flow
    fn offset(len: usize, index: isize) -> usize { if index < 0 { len.saturating_sub(index.unsigned_abs()) } else { index as usize } }
    pub fn idx_bad_clamped(list: &std::collections::VecDeque<Vec<u8>>, index: isize) -> Option<Vec<u8>> {
        list.get(offset(list.len(), index)).cloned()
    }
    pub fn idx_ok_checked(list: &std::collections::VecDeque<Vec<u8>>, index: isize) -> Option<Vec<u8>> {
        let len = list.len() as isize;
        let idx = if index < 0 { len + index } else { index };
        if idx >= 0 && idx < len { list.get(idx as usize).cloned() } else { None }
    }
    pub fn idx_ok_clamp_behind_range_check(list: &std::collections::VecDeque<Vec<u8>>, index: isize) -> Option<Vec<u8>> {
        if index < -(list.len() as isize) { return None; }
        list.get(offset(list.len(), index)).cloned()
    }

    // open modes
    pub fn om_bad_create_new(p: &std::path::Path) -> std::io::Result<std::fs::File> {
        std::fs::OpenOptions::new().write(true).create_new(true).open(p)
    }
    pub fn om_bad_no_truncate(p: &std::path::Path) -> std::io::Result<std::fs::File> {
        std::fs::OpenOptions::new().write(true).create(true).open(p)
    }
    pub fn om_ok_create_truncate(p: &std::path::Path) -> std::io::Result<std::fs::File> {
        std::fs::OpenOptions::new().write(true).create(true).truncate(true).open(p)
    }
    pub fn om_ok_file_create(p: &std::path::Path) -> std::io::Result<std::fs::File> { std::fs::File::create(p) }

    // zero means forever
    pub fn bf_bad_zero_only_on_integer_branch(s: &str) -> Option<Option<std::time::Duration>> {
        if let Ok(secs) = s.parse::<u64>() {
            return Some(if secs == 0 { None } else { Some(std::time::Duration::from_secs(secs)) });
        }
        match s.parse::<f64>() {
            Ok(t) if t < 0.0 => None,
            Ok(t) => std::time::Duration::try_from_secs_f64(t).ok().map(Some),
            Err(_) => None,
        }
    }
    pub fn bf_ok_float_pattern(s: &str) -> Option<Option<std::time::Duration>> {
        match s.parse::<f64>() {
            Ok(t) if t < 0.0 => None,
            Ok(0.0) => Some(None),
            Ok(t) => std::time::Duration::try_from_secs_f64(t).ok().map(Some),
            Err(_) => None,
        }
    }
    pub fn bf_ok_flag(s: &str) -> Option<Option<std::time::Duration>> {
        let t = s.parse::<f64>().ok()?;
        let forever = t == 0.0;
        if t < 0.0 { return None; }
        if forever { return Some(None); }
        std::time::Duration::try_from_secs_f64(t).ok().map(Some)
    }
}

pub mod network {
    pub mod connection {
        use std::io::Write;
        pub struct Connection { pub stream: std::net::TcpStream, pub write_buffer: Vec<u8>, pub write_offset: usize }
        impl Connection {
            pub fn sock_bad_write_all(&mut self) -> std::io::Result<()> {
                self.stream.write_all(&self.write_buffer[self.write_offset..])?;
                self.write_offset = self.write_buffer.len();
                Ok(())
            }
            pub fn sock_bad_count_dropped(&mut self) -> std::io::Result<()> {
                let _n = self.stream.write(&self.write_buffer[self.write_offset..])?;
                self.write_offset = self.write_buffer.len();
                Ok(())
            }
            pub fn sock_ok_partial(&mut self) -> std::io::Result<()> {
                while self.write_offset < self.write_buffer.len() {
                    match self.stream.write(&self.write_buffer[self.write_offset..]) {
                        Ok(0) => break,
                        Ok(n) => { self.write_offset += n; }
                        Err(e) => return Err(e),
                    }
                }
                Ok(())
            }
        }
    }
}

// ---- twins for the rules of batch 11 and the repairs that followed ---------------------------------
pub mod b11 {
    pub struct Skip;
    impl Skip {
        pub fn range_by_score(&self, _min: f64, _max: f64) -> Vec<(Vec<u8>, f64)> { Vec::new() }
        pub fn len(&self) -> usize { 0 }
    }
    pub struct Eng { pub z: Skip }
    impl Eng {
        pub fn zcard(&self, _db: usize, _key: &[u8]) -> Result<usize, String> { Ok(self.z.len()) }
        pub fn zrangebyscore(&self, _db: usize, _key: &[u8], min: f64, max: f64) -> Result<Vec<(Vec<u8>, f64)>, String> { Ok(self.z.range_by_score(min, max)) }
        // answers that do / do not come from both bounds
        pub fn bu_bad_is_infinite_shortcut(&self, db: usize, key: &[u8], min: f64, max: f64) -> Result<usize, String> {
            if min.is_infinite() && max.is_infinite() { return self.zcard(db, key); }
            Ok(self.zrangebyscore(db, key, min, max)?.len())
        }
        pub fn bu_ok_exact_fast_path(&self, db: usize, key: &[u8], min: f64, max: f64) -> Result<usize, String> {
            if min == f64::NEG_INFINITY && max == f64::INFINITY { return self.zcard(db, key); }
            Ok(self.zrangebyscore(db, key, min, max)?.len())
        }
        pub fn bu_ok_plain(&self, db: usize, key: &[u8], min: f64, max: f64) -> Result<usize, String> {
            self.zrangebyscore(db, key, min, max).map(|m| m.len())
        }
        pub fn bu_bad_half_exact(&self, db: usize, key: &[u8], min: f64, max: f64) -> Result<usize, String> {
            if min == f64::NEG_INFINITY && max.is_infinite() { return self.zcard(db, key); }
            Ok(self.zrangebyscore(db, key, min, max)?.len())
        }
    }
    // index ranges: the stop is never clamped from below
    pub fn rs_bad_stop_max0(list: &std::collections::VecDeque<Vec<u8>>, start: isize, stop: isize) -> Vec<Vec<u8>> {
        let len = list.len() as isize;
        let start = if start < 0 { (len + start).max(0) } else { start } as usize;
        let stop = if stop < 0 { (len + stop).max(0) } else { stop } as usize;
        list.iter().enumerate().filter(|(i, _)| *i >= start && *i <= stop).map(|(_, x)| x.clone()).collect()
    }
    pub fn rs_ok_stop_negative_is_empty(list: &std::collections::VecDeque<Vec<u8>>, start: isize, stop: isize) -> Vec<Vec<u8>> {
        let len = list.len() as isize;
        let start = if start < 0 { (len + start).max(0) } else { start };
        let stop = if stop < 0 { len + stop } else { stop }.min(len - 1);
        if start > stop { return Vec::new(); }
        list.iter().enumerate().filter(|(i, _)| *i as isize >= start && *i as isize <= stop).map(|(_, x)| x.clone()).collect()
    }
    // the inclusive end of a range read
    pub fn re_bad_saturating(ids: &[u64], start: u64, end: u64) -> Vec<u64> {
        let s = ids.binary_search(&start).unwrap_or_else(|i| i);
        let e = ids.binary_search(&end).unwrap_or_else(|i| if i > 0 { i - 1 } else { 0 });
        let mut out = Vec::new();
        for i in s..=e { if i < ids.len() { out.push(ids[i]); } }
        out
    }
    pub fn re_ok_empty_when_nothing_le_end(ids: &[u64], start: u64, end: u64) -> Vec<u64> {
        let s = ids.binary_search(&start).unwrap_or_else(|i| i);
        let e = match ids.binary_search(&end) { Ok(i) => i, Err(0) => return Vec::new(), Err(i) => i - 1 };
        let mut out = Vec::new();
        for i in s..=e { if i < ids.len() { out.push(ids[i]); } }
        out
    }
}

// ---- twins for the rules of batch 13 ---------------------------------------------------------------
pub mod b13 {
    use std::collections::{HashMap, VecDeque};
    use std::time::Instant;
    pub struct BlockedClient { pub conn_id: u64, pub deadline: Option<Instant> }
    pub struct Reg { pub blocked_on_key: HashMap<Vec<u8>, VecDeque<BlockedClient>> }
    impl Reg {
        // which entries leave the queues is decided by the deadline alone
        pub fn ea_bad_skip_collected(&mut self, now: Instant) -> Vec<u64> {
            let mut expired = Vec::new();
            for (_key, clients) in self.blocked_on_key.iter_mut() {
                let mut idx = Vec::new();
                for (i, c) in clients.iter().enumerate() {
                    if let Some(d) = c.deadline {
                        if now >= d && !expired.contains(&c.conn_id) { idx.push(i); }
                    }
                }
                for i in idx.iter().rev() {
                    if let Some(c) = clients.remove(*i) { expired.push(c.conn_id); }
                }
            }
            expired
        }
        pub fn ea_ok_report_once(&mut self, now: Instant) -> Vec<u64> {
            let mut expired: Vec<u64> = Vec::new();
            for (_key, clients) in self.blocked_on_key.iter_mut() {
                let mut idx = Vec::new();
                for (i, c) in clients.iter().enumerate() {
                    if let Some(d) = c.deadline {
                        if now >= d { idx.push(i); }
                    }
                }
                for i in idx.iter().rev() {
                    if let Some(c) = clients.remove(*i) {
                        if !expired.contains(&c.conn_id) { expired.push(c.conn_id); }
                    }
                }
            }
            expired
        }
        pub fn ea_bad_retain_predicate(&mut self, now: Instant) -> Vec<u64> {
            let mut expired: Vec<u64> = Vec::new();
            for (_key, clients) in self.blocked_on_key.iter_mut() {
                clients.retain(|c| {
                    let gone = matches!(c.deadline, Some(d) if now >= d) && !expired.contains(&c.conn_id);
                    if gone { expired.push(c.conn_id); }
                    !gone
                });
            }
            expired
        }
    }
    // arguments are applied in the order given
    use crate::protocol::resp::RespFrame;
    pub struct Store;
    impl Store { pub fn zadd(&self, _m: Vec<u8>, _s: f64) -> bool { true } }
    fn pair_of(parts: &[RespFrame], i: usize) -> Option<(f64, Vec<u8>)> {
        match (&parts[i], &parts[i + 1]) {
            (RespFrame::BulkString(Some(s)), RespFrame::BulkString(Some(m))) => Some((std::str::from_utf8(s).ok()?.parse().ok()?, m.clone())),
            _ => None,
        }
    }
    pub fn ao_bad_sorted_pairs(st: &Store, parts: &[RespFrame]) -> usize {
        let mut pairs = Vec::new();
        let mut i = 1;
        while i + 1 < parts.len() { if let Some(p) = pair_of(parts, i) { pairs.push(p); } i += 2; }
        pairs.sort_by(|a, b| a.0.total_cmp(&b.0));
        let mut n = 0;
        for (s, m) in pairs { if st.zadd(m, s) { n += 1; } }
        n
    }
    pub fn ao_ok_in_order(st: &Store, parts: &[RespFrame]) -> usize {
        let mut pairs = Vec::new();
        let mut i = 1;
        while i + 1 < parts.len() { if let Some(p) = pair_of(parts, i) { pairs.push(p); } i += 2; }
        let mut n = 0;
        for (s, m) in pairs { if st.zadd(m, s) { n += 1; } }
        n
    }
    pub fn ao_ok_sorts_something_else(st: &Store, parts: &[RespFrame], mut seen: Vec<(u64, u64)>) -> usize {
        seen.sort();
        let mut n = 0;
        let mut i = 1;
        while i + 1 < parts.len() { if let Some((s, m)) = pair_of(parts, i) { if st.zadd(m, s) { n += 1; } } i += 2; }
        n + seen.len()
    }
}
