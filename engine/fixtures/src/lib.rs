//! Positive / negative twins for the shared analyses of /verif/engine/rules (taint bounds, result
//! continuations, string dispatch tables). Compiled by the mirfacts driver in the thorough tier;
//! `selftest.py` asserts the expected verdict for every function below. Names encode the
//! expectation: `bad_*` must be reported, `ok_*` must be silent.
#![allow(dead_code, unused_variables, clippy::all)]

// ---- taint: index --------------------------------------------------------------------------
pub fn bad_index_unbounded(s: &str, v: &[u8]) -> u8 {
    let i: usize = s.parse().unwrap();
    v[i]
}
pub fn ok_index_compared_with_len(s: &str, v: &[u8]) -> u8 {
    let i: usize = s.parse().unwrap();
    if i < v.len() { v[i] } else { 0 }
}
pub fn ok_index_early_return(s: &str, v: &[u8]) -> u8 {
    let i: usize = s.parse().unwrap();
    if i >= v.len() {
        return 0;
    }
    v[i]
}
pub fn ok_index_flag_variable(s: &str, v: &[u8]) -> u8 {
    let i: usize = s.parse().unwrap();
    let in_range = i < v.len();
    if in_range { v[i] } else { 0 }
}
pub fn bad_index_lower_bound_only(s: &str, v: &[u8]) -> u8 {
    let i: usize = s.parse().unwrap();
    if i > 3 { v[i] } else { 0 }
}
pub fn bad_index_negative_cast(s: &str, v: &[u8]) -> u8 {
    let e: isize = s.parse().unwrap();
    let idx = std::cmp::max(-1, e) as usize;
    if idx == 7 { return 1; }
    v[idx]
}
pub fn ok_index_nonneg_cast(s: &str, v: &[u8]) -> u8 {
    let e: isize = s.parse().unwrap();
    if e < 0 || e as usize >= v.len() { 0 } else { v[e as usize] }
}
pub fn bad_range_end_unbounded(s: &str, t: &str, v: &[u8]) -> usize {
    let a: usize = s.parse().unwrap();
    let b: usize = t.parse().unwrap();
    if a > b { return 0; }
    v[a..=b].len()
}
pub fn ok_range_both_bounded(s: &str, t: &str, v: &[u8]) -> usize {
    let a: usize = s.parse().unwrap();
    let b: usize = t.parse().unwrap();
    if a > b || b >= v.len() { return 0; }
    v[a..=b].len()
}

// ---- taint: allocation ---------------------------------------------------------------------
pub fn bad_alloc_declared_length(s: &str) -> Vec<u8> {
    let n: usize = s.parse().unwrap();
    Vec::with_capacity(n)
}
pub fn ok_alloc_min_received(s: &str, data: &[u8]) -> Vec<u8> {
    let n: usize = s.parse().unwrap();
    Vec::with_capacity(n.min(data.len()))
}
pub fn ok_alloc_limit(s: &str) -> Vec<u8> {
    let n: usize = s.parse().unwrap();
    if n > 4096 { return Vec::new(); }
    vec![0u8; n]
}
pub fn bad_alloc_max_is_no_bound(s: &str) -> Vec<u8> {
    let n: usize = s.parse().unwrap();
    vec![0u8; n.max(16)]
}

// ---- taint: arithmetic ---------------------------------------------------------------------
pub fn bad_neg_min(s: &str) -> i64 {
    let n: i64 = s.parse().unwrap();
    -n
}
pub fn ok_neg_checked(s: &str) -> Option<i64> {
    let n: i64 = s.parse().unwrap();
    n.checked_neg()
}
pub fn ok_neg_after_sign_test(s: &str) -> i64 {
    let n: i64 = s.parse().unwrap();
    if n < 0 { return 0; }
    -n
}
pub fn bad_add_unbounded(s: &str, base: usize) -> usize {
    let n: usize = s.parse().unwrap();
    base + n
}
pub fn ok_add_limited(s: &str) -> usize {
    let n: usize = s.parse().unwrap();
    if n > 1000 { return 0; }
    5 + n
}
pub fn ok_add_negative_to_length(s: &str, v: &[u8]) -> isize {
    let start: isize = s.parse().unwrap();
    let len = v.len() as isize;
    if start < 0 { len + start } else { start }
}
pub fn bad_signed_add(s: &str, cur: i64) -> i64 {
    let inc: i64 = s.parse().unwrap();
    cur + inc
}
pub fn ok_sub_after_comparison(s: &str, v: &[u8]) -> usize {
    let n: usize = s.parse().unwrap();
    if v.len() <= n { return 0; }
    v.len() - n
}
pub fn bad_sub_unchecked(s: &str, v: &[u8]) -> usize {
    let n: usize = s.parse().unwrap();
    v.len() - n
}
pub fn ok_widened_u32_mul(s: &str) -> u64 {
    let n: u32 = s.parse().unwrap();
    (n as u64) * 1000
}
pub fn bad_mul_unbounded(s: &str) -> usize {
    let n: usize = s.parse().unwrap();
    n * 2
}
pub fn ok_mul_checked(s: &str) -> Option<usize> {
    let n: usize = s.parse().unwrap();
    n.checked_mul(2)
}

// ---- taint: interprocedural and through struct fields -----------------------------------------
pub struct Cmd { pub offset: usize, pub name: String }
fn parse_cmd(s: &str) -> Cmd { Cmd { offset: s.parse().unwrap(), name: String::new() } }
fn use_offset(v: &[u8], off: usize) -> u8 { v[off] }
pub fn bad_field_flow(s: &str, v: &[u8]) -> u8 {
    let c = parse_cmd(s);
    v[c.offset]
}
pub fn bad_param_flow_caller(s: &str, v: &[u8]) -> u8 {
    let n: usize = s.parse().unwrap();
    use_offset(v, n)
}

// ---- clock arithmetic ------------------------------------------------------------------------
pub fn bad_deadline(s: &str) -> std::time::Instant {
    let secs: u64 = s.parse().unwrap();
    std::time::Instant::now() + std::time::Duration::from_secs(secs)
}
pub fn ok_deadline_checked(s: &str) -> Option<std::time::Instant> {
    let secs: u64 = s.parse().unwrap();
    std::time::Instant::now().checked_add(std::time::Duration::from_secs(secs))
}
pub fn bad_float_duration(s: &str) -> std::time::Duration {
    let t: f64 = s.parse().unwrap();
    if t < 0.0 { return std::time::Duration::from_secs(0); }
    std::time::Duration::from_secs_f64(t)
}
pub fn ok_float_duration_try(s: &str) -> Option<std::time::Duration> {
    let t: f64 = s.parse().unwrap();
    std::time::Duration::try_from_secs_f64(t).ok()
}

// ---- result continuations (A3) --------------------------------------------------------------
pub fn may_fail(x: u32) -> Result<u32, String> { if x > 3 { Err("big".into()) } else { Ok(x) } }
pub fn rs_question(x: u32) -> Result<u32, String> { let y = may_fail(x)?; Ok(y + 1) }
pub fn rs_match(x: u32) -> u32 { match may_fail(x) { Ok(v) => v, Err(_) => 0 } }
pub fn rs_if_let_err(x: u32) -> u32 { let r = may_fail(x); if let Err(_) = r { return 7; } 1 }
pub fn rs_is_ok(x: u32) -> u32 { let r = may_fail(x); if r.is_ok() { 1 } else { 2 } }

// ---- string dispatch (A7) --------------------------------------------------------------------
pub fn dispatch(cmd: &str) -> u32 {
    match cmd {
        "GET" => 1,
        "SET" | "PUT" => 2,
        "NOP" => 0,
        _ => 9,
    }
}
pub fn is_write(cmd: &str) -> bool {
    if cmd == "SCRIPT" { false } else { matches!(cmd, "SET" | "DEL") }
}

// ---- R-REMOVE-ITER twins (C03) ------------------------------------------------------------
pub fn rm_bad_forward_skip(list: &mut std::collections::VecDeque<Vec<u8>>, e: &[u8], mut n: usize) -> usize {
    let mut removed = 0;
    let mut i = 0;
    while i < list.len() && n > 0 {
        if list[i] == e {
            list.remove(i);
            n -= 1;
            removed += 1;
        }
        i += 1;
    }
    removed
}

pub fn rm_ok_forward_else(list: &mut std::collections::VecDeque<Vec<u8>>, e: &[u8], mut n: usize) -> usize {
    let mut removed = 0;
    let mut i = 0;
    while i < list.len() && n > 0 {
        if list[i] == e {
            list.remove(i);
            n -= 1;
            removed += 1;
        } else {
            i += 1;
        }
    }
    removed
}

pub fn rm_ok_backward(list: &mut std::collections::VecDeque<Vec<u8>>, e: &[u8], mut n: usize) -> usize {
    let mut removed = 0;
    let mut i = list.len();
    while i > 0 && n > 0 {
        i -= 1;
        if list[i] == e {
            list.remove(i);
            n -= 1;
            removed += 1;
        }
    }
    removed
}

// ---- length guards that are off by k for the index they protect (linear forms) -----------
pub fn bad_len_guard_too_short(data: &[u8], hdr: usize, s: &str) -> Option<u8> {
    let n: usize = s.parse::<usize>().ok()?.min(1000);
    let end = hdr + n;
    if data.len() < end {
        return None;
    }
    Some(data[end])
}

pub fn ok_len_guard_exact(data: &[u8], hdr: usize, s: &str) -> Option<u8> {
    let n: usize = s.parse::<usize>().ok()?.min(1000);
    let end = hdr + n;
    if data.len() < end + 2 {
        return None;
    }
    if data[end] != b'\r' || data[end + 1] != b'\n' {
        return None;
    }
    Some(data[end])
}

// ---- decimal formatting into a stack buffer (R-CODEC-DECBUF) -------------------------------
pub fn dec_bad_buffer_19(n: i64, out: &mut Vec<u8>) {
    let mut buf = [0u8; 19];
    let mut pos = buf.len();
    let mut rest = n.unsigned_abs();
    loop {
        pos -= 1;
        buf[pos] = b'0' + (rest % 10) as u8;
        rest /= 10;
        if rest == 0 {
            break;
        }
    }
    if n < 0 {
        pos -= 1;
        buf[pos] = b'-';
    }
    out.extend_from_slice(&buf[pos..]);
}

pub fn dec_ok_buffer_20(n: i64, out: &mut Vec<u8>) {
    let mut buf = [0u8; 20];
    let mut pos = buf.len();
    let mut rest = n.unsigned_abs();
    loop {
        pos -= 1;
        buf[pos] = b'0' + (rest % 10) as u8;
        rest /= 10;
        if rest == 0 {
            break;
        }
    }
    if n < 0 {
        pos -= 1;
        buf[pos] = b'-';
    }
    out.extend_from_slice(&buf[pos..]);
}

// ---------------------------------------------------------------------------------------------
// twins for the path-sensitive "only under this test" analysis (boolpath) and the rules built
// on it; module paths mirror ferrous where a rule is anchored on them
pub mod storage {
    pub mod engine {
        pub fn pattern_matches(p: &str, t: &str) -> bool { p == t || p == "*" }

        fn accepts(pattern: Option<&str>, it: &str) -> bool {
            match pattern { Some(p) => pattern_matches(p, it), None => true }
        }
        pub fn bp_bad_flag_never_cleared(pattern: Option<&[u8]>, items: &[String]) -> Vec<Vec<u8>> {
            let pat = pattern.map(|p| String::from_utf8_lossy(p));
            let mut out = Vec::new();
            for it in items {
                let mut include = true;
                if let Some(ref p) = pat { if !pattern_matches(p, it) { include = true; } }
                if include { out.push(it.as_bytes().to_vec()); }
            }
            out
        }
        pub fn bp_ok_flag(pattern: Option<&[u8]>, items: &[String]) -> Vec<Vec<u8>> {
            let pat = pattern.map(|p| String::from_utf8_lossy(p));
            let mut out = Vec::new();
            for it in items {
                let mut include = true;
                if let Some(ref p) = pat { if !pattern_matches(p, it) { include = false; } }
                if include { out.push(it.as_bytes().to_vec()); }
            }
            out
        }
        pub fn bp_ok_helper(pattern: Option<&[u8]>, items: &[String]) -> Vec<Vec<u8>> {
            let pat = pattern.map(|p| String::from_utf8_lossy(p));
            let mut out = Vec::new();
            for it in items {
                if accepts(pat.as_deref(), it) { out.push(it.as_bytes().to_vec()); }
            }
            out
        }
        pub fn bp_ok_map_or(pattern: Option<&[u8]>, items: &[String]) -> Vec<Vec<u8>> {
            let pat = pattern.map(|p| String::from_utf8_lossy(p));
            let mut out = Vec::new();
            for it in items {
                if pat.as_deref().map_or(true, |p| pattern_matches(p, it)) { out.push(it.as_bytes().to_vec()); }
            }
            out
        }
        pub fn bp_ok_continue(pattern: Option<&[u8]>, items: &[String]) -> Vec<Vec<u8>> {
            let pat = pattern.map(|p| String::from_utf8_lossy(p));
            let mut out = Vec::new();
            for it in items {
                if let Some(ref p) = pat { if !pattern_matches(p, it) { continue; } }
                out.push(it.as_bytes().to_vec());
            }
            out
        }
        pub fn bp_bad_map_or_wrong_default(pattern: Option<&[u8]>, items: &[String]) -> Vec<Vec<u8>> {
            let pat = pattern.map(|p| String::from_utf8_lossy(p));
            let mut out = Vec::new();
            for it in items {
                if pat.as_deref().map_or(true, |p| p.len() > 0) { out.push(it.as_bytes().to_vec()); }
            }
            out
        }
        pub fn bp_bad_fast_path_forgets_pattern(pattern: Option<&[u8]>, items: &[String]) -> Vec<Vec<u8>> {
            let pat = pattern.map(|p| String::from_utf8_lossy(p));
            let mut out = Vec::new();
            if items.len() < 4 { for it in items { out.push(it.as_bytes().to_vec()); } return out; }
            for it in items {
                if let Some(ref p) = pat { if !pattern_matches(p, it) { continue; } }
                out.push(it.as_bytes().to_vec());
            }
            out
        }
    }

    pub mod rdb {
        pub struct RdbReader<R> { pub reader: R, pub pending_expiry_ms: Option<u64>, pub other_pending: Option<u64> }
        impl<R: std::io::Read> RdbReader<R> {
            pub fn set_pending(&mut self, v: u64, w: u64) { self.pending_expiry_ms = Some(v); self.other_pending = Some(w); }
            pub fn carry_bad_early_return(&mut self, kind: u8, out: &mut Vec<(u8, Option<u64>)>) -> Result<(), String> {
                let ttl = self.pending_expiry_ms;
                if kind == 9 { out.push((kind, ttl)); return Ok(()); }
                out.push((kind, ttl));
                self.pending_expiry_ms = None;
                Ok(())
            }
            pub fn carry_ok_reset_everywhere(&mut self, kind: u8, out: &mut Vec<(u8, Option<u64>)>) -> Result<(), String> {
                let ttl = self.other_pending.take();
                if kind == 9 { out.push((kind, ttl)); return Ok(()); }
                out.push((kind, ttl));
                Ok(())
            }
        }
        pub struct RdbWriter;
        impl RdbWriter {
            pub fn textnum_bad(s: &str, out: &mut Vec<u8>) {
                if let Ok(n) = s.parse::<i32>() { out.push(0xC2); out.extend_from_slice(&n.to_le_bytes()); }
                else { out.extend_from_slice(s.as_bytes()); }
            }
            pub fn textnum_ok(s: &str, out: &mut Vec<u8>) {
                if let Ok(n) = s.parse::<i32>() {
                    if n.to_string() == s { out.push(0xC2); out.extend_from_slice(&n.to_le_bytes()); return; }
                }
                out.extend_from_slice(s.as_bytes());
            }
        }
    }
}

pub mod protocol {
    pub mod parser {
        pub fn short_bad_starts_with(data: &[u8], hdr: usize, len: usize) -> Result<Option<usize>, String> {
            let end = hdr + len;
            if data.len() < end { return Ok(None); }
            if !data[end..].starts_with(b"\r\n") { return Err("missing CRLF".to_string()); }
            Ok(Some(end + 2))
        }
        pub fn short_ok_starts_with(data: &[u8], hdr: usize, len: usize) -> Result<Option<usize>, String> {
            let end = hdr + len;
            if data.len() < end + 2 { return Ok(None); }
            if !data[end..].starts_with(b"\r\n") { return Err("missing CRLF".to_string()); }
            Ok(Some(end + 2))
        }
        pub fn short_ok_negative_is_incomplete(data: &[u8], hdr: usize) -> Result<Option<usize>, String> {
            if !data[hdr..].starts_with(b"\r\n") { return Ok(None); }
            Ok(Some(hdr + 2))
        }
    }
}

pub mod so {
    pub struct Index { pub ids: Vec<u64>, pub log: Vec<u64> }
    impl Index {
        pub fn find(&self, id: u64) -> bool { self.ids.binary_search(&id).is_ok() }
        pub fn sorted_bad_push(&mut self, id: u64) { self.ids.push(id); }
        pub fn sorted_ok_insert_at(&mut self, id: u64) { if let Err(p) = self.ids.binary_search(&id) { self.ids.insert(p, id); } }
        pub fn sorted_ok_guarded(&mut self, id: u64, last: u64) -> bool { if id <= last { return false; } self.ids.push(id); true }
        pub fn sorted_ok_sorts(&mut self, id: u64) { self.ids.push(id); self.ids.sort(); }
        pub fn sorted_ok_other_field(&mut self, id: u64) { self.log.push(id); }
    }
    pub fn seq_bad_first_slice(d: &std::collections::VecDeque<u32>, x: u32) -> bool { d.as_slices().0.binary_search(&x).is_ok() }
    pub fn seq_ok_both(d: &std::collections::VecDeque<u32>, x: u32) -> bool { let (a, b) = d.as_slices(); a.binary_search(&x).is_ok() || b.binary_search(&x).is_ok() }
    pub fn seq_ok_contiguous(d: &mut std::collections::VecDeque<u32>, x: u32) -> bool { d.make_contiguous(); d.as_slices().0.binary_search(&x).is_ok() }
}
