#!/usr/bin/env python3
"""writes /verif/MANIFEST.json from the rule registry (engine/rules/props.py)"""
import json, os, sys
HERE = os.path.dirname(os.path.abspath(__file__))
sys.path.insert(0, os.path.join(HERE, "rules"))
import props

VERIF = os.path.dirname(HERE)
ALL = ["C%02d" % i for i in range(1, 21)]


def main():
    checks = []; na = []
    for pid in ALL:
        if pid in props.REGISTRY and pid in props.CLAIMS:
            c = props.CLAIMS[pid]
            rules = props.rules_for(pid)
            checks.append({
                "property_id": pid,
                "quick_cmd": "./check %s --tier quick" % pid,
                "thorough_cmd": "./check %s --tier thorough" % pid,
                "evidence_file": "evidence/%s.json" % pid,
                "replay_cmd_template": "./check %s --replay {path}" % pid,
                "engine": "mirfacts+rules",
                "technique": "static analysis: repository-specific rules over rustc MIR (" + ", ".join(r[0] for r in rules) + ")",
                "level_claimed": {
                    "category": "other",
                    "text": c["decided"],
                    "design_ref": "DESIGN.md section 4, " + pid,
                },
                "level_note": "NOT decided (not claimed): " + c["not_decided"] + " Trusted base: rustc MIR construction and callee resolution, the fact dump, the Python dataflow and the std-API tables in engine/rules.",
            })
        else:
            na.append({"property_id": pid, "reason": props.NOT_APPLICABLE.get(pid, "no sound static rule built for this property")})
    m = {
        "version": 1,
        "setup_cmd": "./setup.sh",
        "hooks": {
            "guard": "ferrous_verif",
            "enable": "none needed: static analysis reads the unmodified build (cargo +nightly check with the mirfacts driver as RUSTC_WORKSPACE_WRAPPER); no guarded code was added to the repository",
            "baseline_off_cmd": "cd /repo && cargo test --workspace --no-fail-fast --offline",
            "source_commits": [],
            "add_only": True,
        },
        "engines": [
            {"name": "mirfacts", "path": "engine/mirfacts", "serves_properties": [c["property_id"] for c in checks],
             "kind_free_text": "rustc_private driver (nightly) dumping MIR bodies, resolved callees, types, constants, ADT and impl tables as JSON facts"},
            {"name": "rules", "path": "engine/rules", "serves_properties": [c["property_id"] for c in checks],
             "kind_free_text": "python3 stdlib rule engine: CFG/dominators, call graph, provenance and taint dataflow, repository-specific rules; known-findings and floors handling"},
        ],
        "checks": checks,
        "notes": "All checks are static (no execution of ferrous, no solver). Each property is claimed at clause level: the structural necessary conditions listed in level_claimed.text; the behavioural remainder is listed in level_note and DESIGN.md. Genuine defects repaired by `fix:` commits in /repo or listed in known_findings.jsonl.",
        "not_applicable": na,
    }
    with open(os.path.join(VERIF, "MANIFEST.json"), "w") as f:
        json.dump(m, f, indent=1)
        f.write("\n")
    print("MANIFEST.json: %d checks, %d not_applicable" % (len(checks), len(na)))


if __name__ == "__main__":
    main()
