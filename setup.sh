#!/bin/sh
# builds the fact-extraction driver and primes the dependency metadata cache (offline)
set -e
cd "$(dirname "$0")"
export CARGO_NET_OFFLINE=true
(cd engine/mirfacts && cargo build --offline --release 2>&1 | tail -2)
python3 - <<'PY'
import sys, os
sys.path.insert(0, os.path.join(os.getcwd(), "engine", "rules"))
import extract
print("facts:", extract.ensure_facts("dev"))
try:
    print("fixtures:", extract.ensure_fixture_facts())
except Exception as e:
    print("fixtures not available:", e)
PY
