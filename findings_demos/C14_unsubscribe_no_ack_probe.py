import socket,subprocess,time,tempfile,sys
BIN=sys.argv[1] if len(sys.argv)>1 else '/repo/target/debug/ferrous'
d=tempfile.mkdtemp()
p=subprocess.Popen([BIN,'--port','7816','--dir',d],stdout=subprocess.DEVNULL,stderr=subprocess.DEVNULL)
time.sleep(1)
def conn():
    s=socket.create_connection(('127.0.0.1',7816)); s.settimeout(1.5); return s
def cmd(s,*a):
    out=b"*%d\r\n"%len(a)+b"".join(b"$%d\r\n%s\r\n"%(len(str(x)),str(x).encode()) for x in a)
    s.sendall(out); time.sleep(0.15)
    try: return s.recv(4096)
    except socket.timeout: return b'<no reply>'
bad=0
def check(what,got,want):
    global bad
    ok=got==want; bad+=not ok; print('ok  ' if ok else 'FAIL',what,got)
a=conn()
check('bare UNSUBSCRIBE without subscriptions', cmd(a,'UNSUBSCRIBE'), b'*3\r\n$11\r\nunsubscribe\r\n$-1\r\n:0\r\n')
check('bare PUNSUBSCRIBE without subscriptions', cmd(a,'PUNSUBSCRIBE'), b'*3\r\n$12\r\npunsubscribe\r\n$-1\r\n:0\r\n')
check('UNSUBSCRIBE x from a client that never subscribed', cmd(a,'UNSUBSCRIBE','x'), b'*3\r\n$11\r\nunsubscribe\r\n$1\r\nx\r\n:0\r\n')
check('PUNSUBSCRIBE p* from a client that never subscribed', cmd(a,'PUNSUBSCRIBE','p*'), b'*3\r\n$12\r\npunsubscribe\r\n$2\r\np*\r\n:0\r\n')
b=conn(); cmd(b,'PSUBSCRIBE','n*')
check('bare UNSUBSCRIBE from a pattern-only client', cmd(b,'UNSUBSCRIBE'), b'*3\r\n$11\r\nunsubscribe\r\n$-1\r\n:1\r\n')
c=conn(); cmd(c,'SUBSCRIBE','ch')
check('control: UNSUBSCRIBE ch', cmd(c,'UNSUBSCRIBE','ch'), b'*3\r\n$11\r\nunsubscribe\r\n$2\r\nch\r\n:0\r\n')
check('afterwards PING still pairs', cmd(a,'PING'), b'+PONG\r\n')
p.kill(); sys.exit(1 if bad else 0)
