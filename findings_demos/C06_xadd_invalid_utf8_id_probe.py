import socket,subprocess,time,tempfile,sys
BIN=sys.argv[1] if len(sys.argv)>1 else '/repo/target/debug/ferrous'
d=tempfile.mkdtemp()
p=subprocess.Popen([BIN,'--port','7856','--dir',d],stdout=subprocess.DEVNULL,stderr=subprocess.DEVNULL)
time.sleep(1)
s=socket.create_connection(('127.0.0.1',7856)); s.settimeout(2)
def cmd(*a):
    out=b"*%d\r\n"%len(a)+b"".join(b"$%d\r\n%s\r\n"%(len(x),x) for x in a)
    s.sendall(out); time.sleep(0.3)
    try: return s.recv(4096)
    except (socket.timeout, ConnectionError): return b'<no reply>'
r=cmd(b'XADD',b's',b'-\x80',b'f',b'v'); print('XADD s "-\\x80" f v ->', r)
time.sleep(0.3)
alive = p.poll() is None
try:
    s2=socket.create_connection(('127.0.0.1',7856)); s2.settimeout(2); s2.sendall(b'*1\r\n$4\r\nPING\r\n'); pong=s2.recv(100)
except Exception as e: pong=repr(e).encode()
print('server process alive:', alive, ' PING from a new connection ->', pong)
ok = alive and pong==b'+PONG\r\n' and r.startswith(b'-ERR')
print('ok' if ok else 'FAIL: one malformed stream ID ends the server process')
p.kill(); sys.exit(0 if ok else 1)
