#!/usr/bin/env python3
"""C16 demonstration: a refused (BUSYGROUP) XGROUP CREATE must leave the existing
group untouched -- its pending entries, per-consumer counts and delivery cursor.

Starts target/debug/ferrous on a free port, talks RESP2 over a raw socket and
exits non-zero if the property is violated.
"""
import os
import shutil
import socket
import subprocess
import sys
import tempfile
import time

ROOT = os.path.dirname(os.path.dirname(os.path.abspath(__file__)))
BIN = os.path.join(ROOT, "target", "debug", "ferrous")


def free_port():
    s = socket.socket()
    s.bind(("127.0.0.1", 0))
    port = s.getsockname()[1]
    s.close()
    return port


class Err(Exception):
    pass


class Client:
    def __init__(self, port):
        self.sock = socket.create_connection(("127.0.0.1", port), timeout=5)
        self.buf = b""

    def _line(self):
        while b"\r\n" not in self.buf:
            chunk = self.sock.recv(65536)
            if not chunk:
                raise RuntimeError("connection closed")
            self.buf += chunk
        line, self.buf = self.buf.split(b"\r\n", 1)
        return line

    def _exact(self, n):
        while len(self.buf) < n + 2:
            chunk = self.sock.recv(65536)
            if not chunk:
                raise RuntimeError("connection closed")
            self.buf += chunk
        data, self.buf = self.buf[:n], self.buf[n + 2:]
        return data

    def _read(self):
        line = self._line()
        t, rest = line[:1], line[1:]
        if t == b"+":
            return rest.decode()
        if t == b"-":
            return Err(rest.decode())
        if t == b":":
            return int(rest)
        if t == b"$":
            n = int(rest)
            return None if n < 0 else self._exact(n).decode()
        if t == b"*":
            n = int(rest)
            return None if n < 0 else [self._read() for _ in range(n)]
        raise RuntimeError("bad reply %r" % line)

    def cmd(self, *args):
        out = b"*%d\r\n" % len(args)
        for a in args:
            a = a if isinstance(a, bytes) else str(a).encode()
            out += b"$%d\r\n%s\r\n" % (len(a), a)
        self.sock.sendall(out)
        return self._read()


failures = []


def check(what, got, want):
    ok = got == want
    print("%s %s\n     got : %r%s" % ("ok  " if ok else "FAIL", what, got,
                                      "" if ok else "\n     want: %r" % (want,)))
    if not ok:
        failures.append(what)


def delivered_ids(reply):
    # [[key, [[id, [f, v]], ...]]] -> [id, ...]
    if not reply:
        return []
    return [e[0] for e in reply[0][1]]


def summary(reply):
    # XPENDING summary -> (total, min, max, {consumer: count})
    if reply is None:
        return None
    total, lo, hi, cons = reply
    return (total, lo, hi, dict((c[0], c[1]) for c in (cons or [])))


def main():
    port = free_port()
    workdir = tempfile.mkdtemp(prefix="c16xrg")
    srv = subprocess.Popen([BIN, "--port", str(port), "--dir", workdir], stdout=subprocess.DEVNULL, stderr=subprocess.DEVNULL)
    try:
        for _ in range(100):
            try:
                c = Client(port); break
            except OSError:
                time.sleep(0.1)
        for i in ["1-1", "2-1"]:
            c.cmd("XADD", "s1", i, "f", "v")
            c.cmd("XADD", "s3", i, "f", "v")
        c.cmd("XGROUP", "CREATE", "s1", "g", "0")
        c.cmd("SET", "s2", "plain string")
        for bad, label in ((["s1", "s2", ">", ">"], "second key holds a string"),
                           (["s1", "s3", ">", "not-an-id"], "second ID is malformed"),
                           (["s1", "s3", ">", ">"], "second stream has no such group")):
            c.cmd("XGROUP", "DESTROY", "s1", "g"); c.cmd("XGROUP", "CREATE", "s1", "g", "0")
            r = c.cmd("XREADGROUP", "GROUP", "g", "alice", "STREAMS", *bad)
            check("XREADGROUP refused (%s)" % label, isinstance(r, Err), True)
            check("refused XREADGROUP left nothing pending (%s)" % label, summary(c.cmd("XPENDING", "s1", "g"))[0], 0)
            check("entries still deliverable with > afterwards (%s)" % label,
                  delivered_ids(c.cmd("XREADGROUP", "GROUP", "g", "bob", "STREAMS", "s1", ">")), ["1-1", "2-1"])
    finally:
        srv.kill(); srv.wait(); shutil.rmtree(workdir, ignore_errors=True)
    print("FAILED: %d" % len(failures) if failures else "all checks passed")
    return 1 if failures else 0


if __name__ == "__main__":
    sys.exit(main())
