#!/usr/bin/env python3
"""C06 demonstration: a frame made of deeply nested RESP3 sets must not take the server down.

Starts target/debug/ferrous on a free port, stores a few keys, then sends (on a second
connection) a request that is nothing but `~1\\r\\n` repeated many times: a set containing a
set containing a set ...  The frame is never completed, so no command is ever executed; the
only code that sees these bytes is the protocol parser.

Expected (property C06): the offending connection gets an error reply and/or is closed, the
server process stays alive, a NEW connection is answered normally and the stored data is
intact.

Exit status 0 = property holds, 1 = property violated.
"""
import os
import socket
import subprocess
import sys
import tempfile
import time

ROOT = "/repo"
BINARY = os.path.join(ROOT, "target", "debug", "ferrous")

# Nesting levels sent. Each level is the 4 bytes "~1\r\n" (a set with one element).
LEVELS = 400_000


def free_port():
    s = socket.socket()
    s.bind(("127.0.0.1", 0))
    port = s.getsockname()[1]
    s.close()
    return port


def encode(*args):
    out = b"*%d\r\n" % len(args)
    for a in args:
        if isinstance(a, str):
            a = a.encode()
        out += b"$%d\r\n%s\r\n" % (len(a), a)
    return out


class Client:
    def __init__(self, port, timeout=5.0):
        self.sock = socket.create_connection(("127.0.0.1", port), timeout=timeout)
        self.buf = b""

    def _line(self):
        while b"\r\n" not in self.buf:
            chunk = self.sock.recv(65536)
            if not chunk:
                raise ConnectionError("connection closed by server")
            self.buf += chunk
        line, self.buf = self.buf.split(b"\r\n", 1)
        return line

    def _exact(self, n):
        while len(self.buf) < n:
            chunk = self.sock.recv(65536)
            if not chunk:
                raise ConnectionError("connection closed by server")
            self.buf += chunk
        data, self.buf = self.buf[:n], self.buf[n:]
        return data

    def read_reply(self):
        line = self._line()
        kind, rest = line[:1], line[1:]
        if kind == b"+":
            return rest.decode()
        if kind == b"-":
            return Exception(rest.decode())
        if kind == b":":
            return int(rest)
        if kind == b"$":
            n = int(rest)
            if n < 0:
                return None
            data = self._exact(n + 2)
            return data[:-2]
        if kind == b"*":
            n = int(rest)
            if n < 0:
                return None
            return [self.read_reply() for _ in range(n)]
        raise ValueError("unexpected reply %r" % line)

    def cmd(self, *args):
        self.sock.sendall(encode(*args))
        return self.read_reply()

    def close(self):
        try:
            self.sock.close()
        except OSError:
            pass


def wait_for_server(port, proc, deadline=10.0):
    end = time.time() + deadline
    while time.time() < end:
        if proc.poll() is not None:
            return False
        try:
            c = Client(port, timeout=1.0)
            ok = c.cmd("PING") == "PONG"
            c.close()
            if ok:
                return True
        except OSError:
            time.sleep(0.05)
    return False


def main():
    if not os.path.exists(BINARY):
        print("FAIL: %s not built" % BINARY)
        return 1

    port = free_port()
    workdir = tempfile.mkdtemp(prefix="c06_demo_")
    log = open(os.path.join(workdir, "server.log"), "wb")
    proc = subprocess.Popen(
        [BINARY, "--port", str(port), "--dir", workdir],
        cwd=workdir, stdout=log, stderr=subprocess.STDOUT)
    failures = []
    try:
        if not wait_for_server(port, proc):
            print("FAIL: server did not start")
            return 1

        # Data that must survive
        c = Client(port)
        assert c.cmd("SET", "greeting", "hello") == "OK"
        assert c.cmd("RPUSH", "queue", "a", "b", "c") == 3
        assert c.cmd("HSET", "user:1", "name", "ada") == 1
        c.close()

        # Sanity: the documented limit works for nested arrays (both with and without the change)
        a = Client(port)
        a.sock.sendall(b"*1\r\n" * 1000)
        try:
            reply = a.read_reply()
            print("nested arrays  -> %r" % (reply,))
            if not isinstance(reply, Exception):
                failures.append("nested arrays were not refused")
        except (ConnectionError, OSError) as e:
            print("nested arrays  -> connection ended (%s)" % e)
        a.close()
        if proc.poll() is not None:
            failures.append("server exited after 1000 nested arrays (status %s)" % proc.returncode)

        # The trigger: nothing but nested RESP3 sets, never completed
        payload = b"~1\r\n" * LEVELS
        b = Client(port, timeout=10.0)
        try:
            b.sock.sendall(payload)
            try:
                reply = b.read_reply()
                print("nested sets    -> %r" % (reply,))
            except (ConnectionError, OSError, ValueError) as e:
                print("nested sets    -> connection ended (%s)" % e)
        except OSError as e:
            print("nested sets    -> send interrupted (%s)" % e)
        b.close()

        time.sleep(0.5)
        status = proc.poll()
        if status is not None:
            failures.append("server process exited (status %s) after %d nested sets" % (status, LEVELS))

        # A new connection must be served normally and the data must be intact
        try:
            n = Client(port, timeout=5.0)
            checks = [
                (("PING",), "PONG"),
                (("GET", "greeting"), b"hello"),
                (("LRANGE", "queue", "0", "-1"), [b"a", b"b", b"c"]),
                (("HGET", "user:1", "name"), b"ada"),
                (("SET", "after", "1"), "OK"),
            ]
            for args, want in checks:
                got = n.cmd(*args)
                print("%-28s -> %r" % (" ".join(args), got))
                if got != want:
                    failures.append("%s returned %r, expected %r" % (" ".join(args), got, want))
            n.close()
        except (OSError, ConnectionError) as e:
            failures.append("new connection is not served: %s" % e)
    finally:
        if proc.poll() is None:
            proc.terminate()
            try:
                proc.wait(timeout=5)
            except subprocess.TimeoutExpired:
                proc.kill()
        log.close()
        try:
            with open(os.path.join(workdir, "server.log"), "rb") as f:
                tail = f.read()[-600:].decode("utf-8", "replace")
            print("--- last lines of the server log ---")
            print(tail.strip())
            print("------------------------------------")
        except OSError:
            pass

    if failures:
        for f in failures:
            print("FAIL: " + f)
        return 1
    print("PASS: server survived, new connection served, data intact")
    return 0


if __name__ == "__main__":
    sys.exit(main())
