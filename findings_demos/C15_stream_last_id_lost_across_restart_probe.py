import socket,subprocess,time,tempfile,sys
BIN=sys.argv[1] if len(sys.argv)>1 else '/repo/target/debug/ferrous'
d=tempfile.mkdtemp()
def start():
    p=subprocess.Popen([BIN,'--port','7846','--dir',d],stdout=subprocess.DEVNULL,stderr=subprocess.DEVNULL)
    time.sleep(1.2)
    s=socket.create_connection(('127.0.0.1',7846)); s.settimeout(2)
    return p,s
def cmd(s,*a):
    out=b"*%d\r\n"%len(a)+b"".join(b"$%d\r\n%s\r\n"%(len(str(x)),str(x).encode()) for x in a)
    s.sendall(out); time.sleep(0.2)
    try: return s.recv(65536)
    except socket.timeout: return b'<no reply>'
p,s=start()
cmd(s,'XADD','top','5-0','a','1'); cmd(s,'XADD','top','9-0','a','2'); cmd(s,'XDEL','top','9-0')
before=cmd(s,'XADD','top','7-0','a','3')
cmd(s,'XADD','gone','5-1','f','v'); cmd(s,'XDEL','gone','5-1')
print('before restart: XADD top 7-0 ->',before, ' EXISTS gone ->', cmd(s,'EXISTS','gone'))
print('SAVE ->',cmd(s,'SAVE')); p.kill(); p.wait()
p,s=start()
after=cmd(s,'XADD','top','7-0','a','3'); ex=cmd(s,'EXISTS','gone')
print('after restart:  XADD top 7-0 ->',after,' EXISTS gone ->',ex)
bad = before.startswith(b'-') and not after.startswith(b'-')
print('FAIL: the stream forgot its last ID across SAVE + restart (an ID below one ever added is accepted)' if bad else 'ok')
p.kill(); sys.exit(1 if bad else 0)
