import socket,subprocess,time,tempfile,sys
BIN=sys.argv[1] if len(sys.argv)>1 else '/repo/target/debug/ferrous'
d=tempfile.mkdtemp()
p=subprocess.Popen([BIN,'--port','7826','--dir',d],stdout=subprocess.DEVNULL,stderr=subprocess.DEVNULL)
time.sleep(1)
def conn():
    s=socket.create_connection(('127.0.0.1',7826)); s.settimeout(1.5); return s
def cmd(s,*a):
    out=b"*%d\r\n"%len(a)+b"".join(b"$%d\r\n%s\r\n"%(len(str(x)),str(x).encode()) for x in a)
    s.sendall(out); time.sleep(0.15)
    try: return s.recv(4096)
    except socket.timeout: return b'<no reply>'
bad=0
def check(what,got,want):
    global bad
    ok=got==want; bad+=not ok; print('ok  ' if ok else 'FAIL',what,got)
a=conn(); b=conn()
cmd(a,'SET','k','x')
check('WATCH k', cmd(a,'WATCH','k'), b'+OK\r\n')
check('MULTI', cmd(a,'MULTI'), b'+OK\r\n')
cmd(b,'SET','k','y')
check('UNWATCH inside MULTI is queued', cmd(a,'UNWATCH'), b'+QUEUED\r\n')
check('INCR c queued', cmd(a,'INCR','c'), b'+QUEUED\r\n')
check('EXEC aborts: the watched key changed', cmd(a,'EXEC'), b'*-1\r\n')
check('c untouched', cmd(a,'GET','c'), b'$-1\r\n')
# queued UNWATCH executes fine when nothing changed
cmd(a,'WATCH','k'); cmd(a,'MULTI'); cmd(a,'UNWATCH'); cmd(a,'INCR','c')
check('EXEC runs, UNWATCH slot is OK', cmd(a,'EXEC'), b'*2\r\n+OK\r\n:1\r\n')
# UNWATCH outside MULTI still immediate
cmd(a,'WATCH','k'); cmd(b,'SET','k','z')
check('UNWATCH outside MULTI', cmd(a,'UNWATCH'), b'+OK\r\n')
cmd(a,'MULTI'); cmd(a,'INCR','c')
check('EXEC runs after UNWATCH', cmd(a,'EXEC'), b'*1\r\n:2\r\n')
p.kill(); sys.exit(1 if bad else 0)
