#!/usr/bin/env python3
"""Probe of inputs that already violate C06 in the UNMODIFIED tree (not the seeded change).

For every candidate a fresh server is started (address space capped with `ulimit -v` so that a
runaway allocation aborts the server instead of exhausting the machine), one key is stored, the
candidate command is sent, and 6 seconds later a NEW connection sends PING and GET.

Output: one line per candidate: OK (served normally) / VIOLATION (exited, or not answering).
"""
import os
import socket
import subprocess
import sys
import tempfile
import time

sys.path.insert(0, os.path.dirname(os.path.abspath(__file__)))
from C06_probe_support_demo import BINARY, Client, free_port, wait_for_server, encode  # noqa: E402

CANDIDATES = [
    ("SRANDMEMBER with count i64::MIN",
     [("SADD", "s", "m")],
     ("SRANDMEMBER", "s", "-9223372036854775808")),
    ("EVAL returning a table whose __index is a C function (never yields nil)",
     [],
     ("EVAL", "return setmetatable({}, {__index = rawequal})", "0")),
    ("EVAL returning a 2^64-node shared (DAG) table",
     [],
     ("EVAL", "local t = {} for i = 1, 64 do t = {t, t} end return t", "0")),
    ("SLEEP u64::MAX milliseconds (test command left in the dispatcher)",
     [],
     ("SLEEP", "18446744073709551615")),
]


def probe(name, setup, command):
    port = free_port()
    workdir = tempfile.mkdtemp(prefix="c06_probe_")
    log = open(os.path.join(workdir, "server.log"), "wb")
    proc = subprocess.Popen(
        ["bash", "-c", "ulimit -v 3000000; exec %s --port %d --dir %s" % (BINARY, port, workdir)],
        cwd=workdir, stdout=log, stderr=subprocess.STDOUT)
    verdict = "OK"
    try:
        if not wait_for_server(port, proc):
            return "server did not start"
        c = Client(port)
        c.cmd("SET", "greeting", "hello")
        for s in setup:
            c.cmd(*s)
        c.sock.sendall(encode(*command))
        time.sleep(6)
        if proc.poll() is not None:
            verdict = "VIOLATION: server exited with status %s" % proc.returncode
        else:
            try:
                n = Client(port, timeout=3.0)
                if n.cmd("PING") != "PONG" or n.cmd("GET", "greeting") != b"hello":
                    verdict = "VIOLATION: wrong answers on a new connection"
                n.close()
            except (OSError, ConnectionError) as e:
                verdict = "VIOLATION: new connection not served after 6 s (%s)" % e
        c.close()
    finally:
        if proc.poll() is None:
            proc.kill()
            proc.wait()
        log.close()
        with open(os.path.join(workdir, "server.log"), "rb") as f:
            tail = f.read()[-200:].decode("utf-8", "replace").strip().splitlines()
        if verdict != "OK" and tail:
            verdict += "   [log: %s]" % tail[-1]
    return verdict


if __name__ == "__main__":
    for name, setup, command in CANDIDATES:
        print("%-75s %s" % (name, probe(name, setup, command)))
