import socket,subprocess,time,tempfile,sys
BIN=sys.argv[1] if len(sys.argv)>1 else '/repo/target/debug/ferrous'
d=tempfile.mkdtemp()
p=subprocess.Popen([BIN,'--port','7836','--dir',d],stdout=subprocess.DEVNULL,stderr=subprocess.DEVNULL)
time.sleep(1)
s=socket.create_connection(('127.0.0.1',7836)); s.settimeout(1.5)
def cmd(*a):
    out=b"*%d\r\n"%len(a)+b"".join(b"$%d\r\n%s\r\n"%(len(str(x)),str(x).encode()) for x in a)
    s.sendall(out); time.sleep(0.15)
    try: return s.recv(65536)
    except socket.timeout: return b'<no reply>'
print(cmd('XADD','dup','1-0','f','1','f','2','g','3'))
r=cmd('XRANGE','dup','-','+')
print(r)
want=b'*1\r\n*2\r\n$3\r\n1-0\r\n*6\r\n$1\r\nf\r\n$1\r\n1\r\n$1\r\nf\r\n$1\r\n2\r\n$1\r\ng\r\n$1\r\n3\r\n'
ok = r==want
print('ok' if ok else 'FAIL: the entry does not keep its three field-value pairs in the order given (Redis answers f 1 f 2 g 3)')
p.kill(); sys.exit(0 if ok else 1)
